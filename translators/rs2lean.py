#!/usr/bin/env python3
"""
Small leaf functions of /repo -> lean/OH/Generated/Arith.lean  (tie 1, DESIGN §2.2 / §8.9)

The functions listed in TARGETS (integer arithmetic, comparisons, Option/Result plumbing, generic range helpers,
`&mut self` methods on bit masks and arrays, fieldless enums, small `match`es, associated constants, closures passed
to iterator adaptors) are parsed from the Rust sources on every run and written out as Lean definitions over the
support library OH/Model/RustInt.lean: one `def` per Rust function, same evaluation order, every `+ - *` a checked
operation whose overflow is an explicit outcome, `/ %` truncating, `as` wrapping, `try_into` a range test,
`expect`/`unwrap`/`assert!`/an array index out of bounds an explicit panic outcome, a `&mut self` method a
state-passing function, a generic parameter `T: Ord` a Lean type parameter with decidable `<` `≤`.  Calls that need
what is not translated (the evaluation context, chrono) are listed in HOLES: their RESULT becomes a parameter of the
generated definition.  OH/Props/Arith<ID>*.lean proves that the generated definitions never reach a panic / overflow
outcome (or exactly where the hand-written model says so) and that they equal the hand-written models, so the property
theorems are re-checked against what the code says NOW.

Third extension (DESIGN §8.9): chrono mode (CHRONO_FNS: chrono's types are the values of the calendar model, every chrono
call of the tables CHRONO_* is the function `Chrono.*` of OH/Model/RustChrono.lean), statement-level `if` / `match` with
assignments and early `return`s, `debug_assert!`, payload enums, local closures, arm targets, untranslated functions of
/repo as function parameters (FN_HOLES); a sequence front end (SEQ_TARGETS: `Vec` / consumed iterators as lists, `while let
Some(x) = it.next()` as structural recursion, `from_fn` with fuel, library calls on vectors as function parameters whose
contracts are hypotheses of the theorems; OH/Model/RustSeq.lean); bounded iterator chains over arrays and deques
(`[iteration extension]`, OH/Model/RustIter.lean).

The parser is a strict recursive-descent parser for exactly the Rust subset these functions use (see `class Parser`
and DESIGN §8.9); anything else -- an unknown token, statement, method, type, a type the inference cannot determine, a
macro of another shape, a missing `use` -- is an error naming file:line, exit status 1, and nothing is written.
Comments, doc comments and attributes are skipped (`#[derive(..)]` is read where an order on a struct is used).

usage:  rs2lean.py [--repo DIR] [--override REL=FILE]... [--out FILE]
        (DIR defaults to $VERIF_REPO or /repo; --override reads FILE in place of DIR/REL, for
        experiments on an edited copy; the output is rewritten only when its content changes)
"""
import os
import re
import sys

VERIF = os.path.dirname(os.path.dirname(os.path.abspath(__file__)))
REPO = os.environ.get("VERIF_REPO", "/repo")
OUT = os.path.join(VERIF, "lean/OH/Generated/Arith.lean")

F_EXT = "opening-hours-syntax/src/extended_time.rs"
F_DATES = "opening-hours/src/utils/dates.rs"
F_FRAME = "opening-hours-syntax/src/normalize/frame.rs"
F_DAY = "opening-hours-syntax/src/rules/day.rs"
F_CC = "compact-calendar/src/lib.rs"
F_RANGE = "opening-hours/src/utils/range.rs"
F_TIME = "opening-hours-syntax/src/rules/time.rs"
F_TF = "opening-hours/src/filter/time_filter.rs"
F_DF = "opening-hours/src/filter/date_filter.rs"

# what is translated: (file, impl type or None for free functions, trait or None, function names);
# `structs`: (file, name) of the struct declarations the functions use (fields of integer type);
# `externs`: library calls kept as the tuple of their arguments, with the parameter types of the
# library's signature (chrono: `NaiveDate::from_ymd_opt(year: i32, month: u32, day: u32)`).
STRUCTS = [(F_EXT, "ExtendedTime"), (F_DAY, "Year"), (F_DAY, "WeekNum"), (F_CC, "CompactMonth"), (F_CC, "CompactYear"),
           (F_TIME, "VariableTime"), (F_DAY, "YearRange"), (F_DAY, "WeekRange"), (F_DAY, "DateOffset"), (F_CC, "CompactCalendar")]
# fieldless enums (`enum E { A = 1, B = 2, .. }` or without discriminants): a Lean inductive + `E.discr`
ENUMS = [(F_DAY, "Month"), (F_TIME, "TimeEvent")]
# Types whose values are never looked into: parameters of these types are dropped from the Lean definition, they
# can only be passed on to the calls listed in HOLES.  OPAQUE_FIELDS: the fields of an opaque type that may be
# read (they are opaque again).  HOLES: (type, method) -> result type; the call is NOT translated: its RESULT becomes
# an extra parameter `ext<n>` of the Lean definition, one per call site, in the order of evaluation (the theorems
# quantify over it; what the callee does, including a panic inside it, is outside the definition).
OPAQUE_TYPES = {"Context", "NaiveDate", "TimeSpan", "Time", "IsoWeek", "CalendarIter"}
OPAQUE_FIELDS = {("TimeSpan", "range"): "Range < Time >"}
HOLES = {("TimeEvent", "as_naive"): "ExtendedTime", ("Time", "as_naive"): "ExtendedTime",
         # chrono: Datelike::year(), Datelike::iso_week(), IsoWeek::week()
         ("NaiveDate", "year"): "i32", ("NaiveDate", "iso_week"): "IsoWeek", ("IsoWeek", "week"): "u32",
         # [iteration extension] chrono: Datelike::month(), Datelike::day(); `CompactCalendar::iter` (a `flat_map` chain:
         # not translated) and `Iterator::next` on what it returns.  `ExtNaiveDate` is a name of these tables only: a
         # `NaiveDate` VALUE inside translated code, kept as the triple (year, month, day), see EXTVAL
         ("NaiveDate", "month"): "u32", ("NaiveDate", "day"): "u32",
         ("CompactCalendar", "iter"): "CalendarIter", ("CalendarIter", "next"): "Option < ExtNaiveDate >"}
# `use PATH as ALIAS;` that the file has to contain for `ALIAS::Name` to be read as `Name`
# what can be cross-checked of the parameter types assumed for the closures: the elements the first adaptor sees are
# the items of `time_selector.as_naive(..)`, i.e. `<ts::TimeSpan as TimeFilter>::Output` = the result type of the
# translated `TimeSpan::as_naive`; `.map` after `.filter_map(f)` sees the `Some` payloads of `f`
CLOSURE_ELEM = {
    ("TimeFilter", "intervals_at_clip"): (("TimeSpan", "as_naive"), "ret"),
    ("TimeFilter", "intervals_at_next_day_clip"): (("TimeSpan", "as_naive"), "ret"),
    ("TimeFilter", "intervals_at_next_day_shift"): (("TimeFilter", "intervals_at_next_day_clip"), "some"),
}
# a free function of another file may be called only if the calling file imports it from that file's module
MODULE_OF = {F_RANGE: "crate::utils::range"}
ALIASES = {F_TF: {"ts": "opening_hours_syntax::rules::time"}, F_DF: {"ds": "opening_hours_syntax::rules::day"}}
TARGETS = [
    (F_EXT, "ExtendedTime", None, ["new", "mins_from_midnight", "from_mins_from_midnight", "add_minutes", "add_hours"]),
    (F_DATES, None, None, ["easter"]),
    (F_FRAME, "Year", "Framable", ["succ", "pred"]),
    (F_FRAME, "WeekNum", "Framable", ["succ", "pred"]),
    (F_CC, "CompactMonth", None, ["contains", "first", "first_after", "count", "insert"]),
    (F_CC, "CompactYear", None, ["insert", "contains"]),
    # generic code: the header is given in full; `T: PartialOrd` / `T: Ord` becomes a Lean type parameter with
    # decidable `≤` and `<` (see `generic_binders`); the Lean namespace is the trait's name
    ("impl < T : PartialOrd > WrappingRange < T > for RangeInclusive < T >", F_RANGE, "WrappingRange", ["wrapping_contains"]),
    (F_RANGE, None, None, ["range_intersection"]),
    # code generated by a macro: ("macro", file, macro name, the type it is invoked with, impl header of the
    # expansion, Lean namespace, functions).  The shape of the macro is checked literally, see `expand_macro`.
    # associated constants: ("const", file, type, names): `const NAME: T = e;` is a definition without parameters
    ("const", F_EXT, "ExtendedTime", ["MIDNIGHT_00", "MIDNIGHT_24", "MIDNIGHT_48"]),
    ("impl TimeFilter for ts :: VariableTime", F_TF, "VariableTime", ["as_naive"]),
    ("impl TimeFilter for ts :: TimeSpan", F_TF, "TimeSpan", ["as_naive"]),
    # closures: ("closure", file, enclosing free fn, the adaptor the closure is the argument of, which occurrence,
    # parameter type, result type, Lean namespace, Lean name).  The closure has no type annotations: the two types
    # are the ones rustc infers (the element type of the iterator the adaptor is called on) and are an ASSUMPTION of
    # the translation; the body may only mention its parameter and translated items (a captured variable is an
    # "unknown variable" error).
    ("impl DateFilter for ds :: YearRange", F_DF, "YearRange", ["filter"]),
    ("impl DateFilter for ds :: WeekRange", F_DF, "WeekRange", ["filter"]),
    ("closure", F_TF, "time_selector_intervals_at", "filter_map", 0, "Range < ExtendedTime >", "Option < Range < ExtendedTime > >",
     "TimeFilter", "intervals_at_clip"),
    ("closure", F_TF, "time_selector_intervals_at_next_day", "filter_map", 0, "Range < ExtendedTime >", "Option < Range < ExtendedTime > >",
     "TimeFilter", "intervals_at_next_day_clip"),
    ("closure", F_TF, "time_selector_intervals_at_next_day", "map", 0, "Range < ExtendedTime >", "Range < ExtendedTime >",
     "TimeFilter", "intervals_at_next_day_shift"),
    ("macro", F_DAY, "impl_convert_for_month", "u8", "impl TryFrom < u8 > for Month", "Month", ["try_from"]),
    (F_DAY, "Month", None, ["next", "prev"]),
    (F_FRAME, "Month", "Framable", ["succ", "pred"]),
    # third extension: chrono mode (CHRONO_FNS)
    (F_DAY, None, None, ["add_days_saturating"]),
    (F_DAY, "DateOffset", None, ["apply"]),
    ("impl DateFilter for ds :: YearRange", F_DF, "YearRange", ["next_change_hint"]),
    (F_DAY, "Month", None, ["from_date"]),
    # ONE ARM of the `match self { .. }` that ends a method of an enum which is not translated as a whole:
    # ("arm", file, impl header, fn, enum declaration file, enum, variant, {field: "None" | "Some"} (sub-patterns the arm
    # must have; other fields are plain bindings), Lean namespace, Lean name).  The definition has the function's
    # parameters (without `self`), then one parameter per binding of the pattern, typed from the enum declaration (as
    # references: `match self` on `&Self`); its body is the statements in front of the `match` followed by the arm.
    ("arm", F_DF, "impl DateFilter for ds :: MonthdayRange", "filter", F_DAY, "MonthdayRange", "Month", {}, "MonthdayRange", "filter_month"),
    ("arm", F_DF, "impl DateFilter for ds :: MonthdayRange", "next_change_hint", F_DAY, "MonthdayRange", "Month", {"year": "None"},
     "MonthdayRange", "hint_month_every_year"),
    ("arm", F_DF, "impl DateFilter for ds :: MonthdayRange", "next_change_hint", F_DAY, "MonthdayRange", "Month", {"year": "Some"},
     "MonthdayRange", "hint_month_of_year"),
    # [iteration extension] bounded iteration over `[CompactMonth; 12]`
    (F_CC, "CompactYear", None, ["first", "first_after", "count"]),
    # a `VecDeque<CompactYear>` as a `List`; the chrono getters of the `date` parameter are holes
    (F_CC, "CompactCalendar", None, ["year_for", "contains", "first_after", "count"]),
]
EXTERNS = {"NaiveDate::from_ymd_opt": (["i32", "u32", "u32"], "Option < NaiveDate >")}
# ---- third extension: chrono calls with a Lean meaning -------------------------------------------------------------
# The functions listed in CHRONO_FNS ((impl type or None, name), "chrono mode") see chrono's types not as opaque types
# but as the values of the calendar model: a `NaiveDate` is its day number, a `Weekday` its number of days from Monday,
# a `TimeDelta` its number of whole days, `IsoWeek` the date it was taken from (all `Int` in Lean); every call in the
# tables below is emitted as the function of lean/OH/Model/RustChrono.lean of that name, which states its meaning over
# OH/Model/Calendar.lean (TRUSTED: "chrono computes this", the same trust as the calendar model itself, tied by the
# chr.* suite).  Anything of chrono that is not listed is an error.
CHRONO_TYPES = {"NaiveDate": "NaiveDate", "Weekday": "Weekday", "Duration": "TimeDelta", "TimeDelta": "TimeDelta", "IsoWeek": "IsoWeek"}
# (receiver type, method) -> (parameter types, result type, function of RustChrono.lean, needs `use chrono::prelude::Datelike`)
CHRONO_METHODS = {
    ("NaiveDate", "weekday"): ([], "Weekday", "Chrono.weekday", True),
    ("NaiveDate", "year"): ([], "i32", "Chrono.year", True),
    ("NaiveDate", "month"): ([], "u32", "Chrono.month", True),
    ("NaiveDate", "day"): ([], "u32", "Chrono.day", True),
    ("NaiveDate", "iso_week"): ([], "IsoWeek", "Chrono.iso_week", True),
    ("NaiveDate", "with_year"): (["i32"], "Option < NaiveDate >", "Chrono.with_year", True),
    ("NaiveDate", "succ_opt"): ([], "Option < NaiveDate >", "Chrono.succ_opt", False),
    ("NaiveDate", "pred_opt"): ([], "Option < NaiveDate >", "Chrono.pred_opt", False),
    ("NaiveDate", "checked_add_signed"): (["TimeDelta"], "Option < NaiveDate >", "Chrono.checked_add_signed", False),
    ("IsoWeek", "week"): ([], "u32", "Chrono.iso_week_week", False),
    ("IsoWeek", "year"): ([], "i32", "Chrono.iso_week_year", False),
    ("Weekday", "days_since"): (["Weekday"], "u32", "Chrono.days_since", False),
}
CHRONO_CALLS = {
    "NaiveDate::from_ymd_opt": (["i32", "u32", "u32"], "Option < NaiveDate >", "Chrono.from_ymd_opt"),
    "NaiveDate::from_isoywd_opt": (["i32", "u32", "Weekday"], "Option < NaiveDate >", "Chrono.from_isoywd_opt"),
    "Duration::try_days": (["i64"], "Option < TimeDelta >", "Chrono.try_days"),
    "TimeDelta::try_days": (["i64"], "Option < TimeDelta >", "Chrono.try_days"),
}
CHRONO_CONSTS = {"NaiveDate::MIN": ("NaiveDate", "Chrono.DATE_MIN"), "NaiveDate::MAX": ("NaiveDate", "Chrono.DATE_MAX")}
CHRONO_CONSTS.update({f"Weekday::{n}": ("Weekday", str(k)) for k, n in enumerate(["Mon", "Tue", "Wed", "Thu", "Fri", "Sat", "Sun"])})
# `DATE_END.date()`: the constant of crate::opening_hours (its value is tied by tables2lean.py), which the file has to import
CRATE_CONSTS = {"DATE_END": ("crate::opening_hours", "date", "NaiveDate", "Chrono.DATE_END")}
# FN_HOLES: functions of /repo that are NOT translated (iterator code) but called from a chrono-mode function with
# translated arguments: the FUNCTION is a parameter `ext_<name>` of the generated definition (as the sequence EXTERNs),
# applied where the code calls it; the theorems instantiate it with the hand model of that function.  name -> (file that
# has to define it, parameter types, result type); `[ T ]` = an array literal `[a, b]` passed as `impl IntoIterator<Item = T>`:
# the list of its elements.  What the callee does, including a panic inside it, is outside the definition.
FN_HOLES = {"next_change_from_bounds": (F_DF, ["NaiveDate", "[ NaiveDate ]", "[ NaiveDate ]"], "NaiveDate")}
# a parameter `impl Datelike` is read as a `NaiveDate` (an ASSUMPTION on the callers, all in /repo: they pass dates)
IMPL_TRAIT_AS = {"Datelike": "NaiveDate"}
CHRONO_FNS = {(None, "add_days_saturating"), ("DateOffset", "apply"), ("YearRange", "next_change_hint"), ("Month", "from_date"),
              ("MonthdayRange", "filter_month"), ("MonthdayRange", "hint_month_every_year"), ("MonthdayRange", "hint_month_of_year")}
# enums WITH payloads (tuple variants over integer / chrono types): a Lean inductive with constructor arguments
PENUMS = [(F_DAY, "WeekDayOffset")]
# [iteration extension] `EXTERN(args).expect("..")` / `.unwrap()`: the payload is kept as the tuple of the arguments (type
# "extval"); WHETHER the library call returns `Some` is a parameter of the generated definition (ORACLES: name and Lean
# type), about which the theorems make an explicit hypothesis.  In the files of EXTVAL_FILES the type `Option<NaiveDate>`
# is `Option` of such a value (elsewhere it is the result of the EXTERN itself, as in `easter`).
ORACLES = {"NaiveDate::from_ymd_opt": ("from_ymd_opt_is_some", "Int → Int → Int → Bool")}
# GETTERS: untranslated calls without arguments on a by-value PARAMETER of the function (`date.year()`) that are pure
# functions of the (immutable, `Copy`) value: in the files of GETTER_FILES all the calls of one getter on one parameter
# share ONE parameter `ext_<param>_<getter>` of the generated definition (so the theorems say which getter each
# parameter stands for, and swapping `date.month()` / `date.day()` changes the definition)
GETTERS = {("NaiveDate", "year"), ("NaiveDate", "month"), ("NaiveDate", "day")}
GETTER_FILES = {F_CC}


def hole_lean_names(holes):
    """the Lean parameter of each hole: `ext<n>` (numbered among themselves, in evaluation order) or the getter's name"""
    out, k = [], 0
    for hn, _, _ in holes:
        if hn.startswith("@"):
            out.append("ext_" + hn[1:].replace(".", "_"))
        else:
            k += 1
            out.append(f"ext{k}")
    return out
EXTVAL = "NaiveDate::from_ymd_opt"
EXTVAL_FILES = {F_CC}
FREE_NS = {F_DATES: "Dates", F_RANGE: "RangeUtils", F_DAY: "Day", F_DF: "DateFilter"}
# library items that may be used unqualified only when the file imports them from exactly this module
STD_USES = {"Range": "std::ops", "RangeInclusive": "std::ops", "max": "std::cmp", "min": "std::cmp", "VecDeque": "std::collections"}
ORD_BOUNDS = {"PartialOrd", "Ord"}

INT_TYPES = {
    "u8": (0, 2**8 - 1), "u16": (0, 2**16 - 1), "u32": (0, 2**32 - 1), "u64": (0, 2**64 - 1), "usize": (0, 2**64 - 1),
    "i8": (-(2**7), 2**7 - 1), "i16": (-(2**15), 2**15 - 1), "i32": (-(2**31), 2**31 - 1), "i64": (-(2**63), 2**63 - 1),
    "isize": (-(2**63), 2**63 - 1),
}
LEAN_KEYWORDS = {
    "at", "from", "end", "open", "in", "fun", "do", "then", "else", "if", "with", "show", "have", "let", "by", "match",
    "def", "theorem", "where", "namespace", "section", "import", "instance", "structure", "class", "Type", "Prop", "Sort",
    "forall", "exists", "true", "false", "some", "none", "ok", "error", "bnd", "deriving", "mutual", "return", "for",
    "local", "private", "protected", "export", "universe", "variable", "example", "axiom", "opaque", "abbrev", "inductive",
    "set_option", "macro", "syntax", "notation", "infix", "prefix", "postfix", "attribute", "using", "this", "suffices",
    "calc", "nomatch", "nofun", "decide", "Int", "Nat", "Bool", "Option", "R",
}

# ---- fourth extension [dated extension]: the dated-range helpers of filter/date_filter.rs (DESIGN §8.9) ------------
# All in chrono mode.  New constructs (each marked `[dated extension]` where it is implemented):
#  * enums with STRUCT variants (`enum Date { Fixed { year: Option<u16>, month: Month, day: u8 }, Easter { year: .. } }`)
#    as payload enums whose constructor arguments carry the field names (DATED_PENUM_FIELDS, filled by `find_penum`);
#    `match` patterns `E::V { f, g: None, h: Some(x), .. }`, or-patterns of these binding the same names at the same
#    types, a match guard `if c` (pure `c`): `| pat => if c then body else (match v with <the remaining arms>)`
#    -- Rust's first-match semantics; the names bound by a guarded pattern must not hide outer names;
#  * a parameter `impl FnOnce(A, ..) -> B`: a Lean function parameter `A → .. → R B`, applied where the code calls it;
#  * `OPT.into_iter().chain((LO..HI).rev().filter_map(|x| BODY)).next()` (exactly this shape): `firstOrRevFindMapM`
#    of OH/Model/RustDated.lean; the closure may read the (immutable) variables in scope, `?` leaves the closure;
#  * `opt.map(Into::into)` (value-preserving by the type check), `x.saturating_neg()` on a signed type,
#    `enum_value.into()` towards an integer type when the macro DATED_ENUM_INTO generates `impl From<Enum> for T
#    { fn from(val: Enum) -> Self { val as _ } }` (shape checked literally) and is invoked with `T`;
#  * `ALIAS::f(..)` / `f(..)` of a translated free function of another file (DATED_MODULE_OF: the module the alias /
#    the `use` has to name); the call of a NON-chrono translated function whose result is the argument tuple of a
#    library call of CHRONO_CALLS (`easter`): the chrono meaning of that call applied to the tuple.
TARGETS += [
    (F_DF, None, None, ["valid_ymd_before", "valid_ymd_after", "year_before_offset", "date_year", "date_on_year"]),
]
CHRONO_FNS |= {(None, "valid_ymd_before"), (None, "valid_ymd_after"), (None, "year_before_offset"), (None, "date_year"),
               (None, "date_on_year")}
PENUMS += [(F_DAY, "Date")]
DATED_PENUM_FIELDS = {}  # (enum, variant) -> field names, for struct variants (filled by `find_penum`)
DATED_MODULE_OF = {F_DAY: "opening_hours_syntax::rules::day", F_DATES: "crate::utils::dates"}
DATED_ENUM_INTO = {"Month": (F_DAY, "impl_convert_for_month")}
DATED_ENUM_INTO_OK = {}  # (enum, integer type) -> bool, filled by `translate` (needs the tokens)
# ---- end of the tables of the fourth extension ----------------------------------------------------------------------


class Fail(Exception):
    pass


def fail(where, msg):
    raise Fail(f"{where}: {msg}")


# ------------------------------------------------------------------------------------------------
# tokens

TOKEN = re.compile(
    r"""
    (?P<ws>\s+) |
    (?P<lcom>//[^\n]*) |
    (?P<bcom>/\*) |
    (?P<str>b?"(?:[^"\\]|\\.)*") |
    (?P<rawstr>r\#*") |
    (?P<life>'[A-Za-z_][A-Za-z0-9_]*(?!')) |
    (?P<chr>b?'(?:[^'\\]|\\.[^']*)') |
    (?P<num>\d[\d_]*(?:\.\d[\d_]*)?(?:[eE][+-]?\d+)?(?:[iu](?:8|16|32|64|128|size)|f32|f64)?) |
    (?P<id>[A-Za-z_][A-Za-z0-9_]*) |
    (?P<op>\.\.=|\.\.\.|<<=|>>=|::|->|=>|==|!=|<=|>=|&&|\|\||<<|>>|\+=|-=|\*=|/=|%=|\|=|&=|\^=|\.\.|[-+*/%=<>!&|^~?.,;:@#$(){}\[\]])
    """,
    re.X,
)


class Tok:
    __slots__ = ("kind", "text", "line")

    def __init__(self, kind, text, line):
        self.kind, self.text, self.line = kind, text, line

    def __repr__(self):
        return f"{self.kind}:{self.text!r}@{self.line}"


def tokenize(src, fname):
    toks, i, line = [], 0, 1
    n = len(src)
    while i < n:
        m = TOKEN.match(src, i)
        if not m:
            fail(f"{fname}:{line}", f"unexpected character {src[i]!r}")
        kind = m.lastgroup
        text = m.group()
        if kind == "bcom":  # nested block comments
            depth, j = 1, m.end()
            while depth and j < n:
                if src.startswith("/*", j):
                    depth += 1
                    j += 2
                elif src.startswith("*/", j):
                    depth -= 1
                    j += 2
                else:
                    j += 1
            if depth:
                fail(f"{fname}:{line}", "unterminated block comment")
            line += src.count("\n", i, j)
            i = j
            continue
        if kind == "rawstr":
            hashes = text.count("#")
            close = '"' + "#" * hashes
            j = src.find(close, m.end())
            if j < 0:
                fail(f"{fname}:{line}", "unterminated raw string")
            j += len(close)
            toks.append(Tok("str", src[i:j], line))
            line += src.count("\n", i, j)
            i = j
            continue
        if kind not in ("ws", "lcom"):
            toks.append(Tok(kind, text, line))
        line += text.count("\n")
        i = m.end()
    toks.append(Tok("eof", "", line))
    return toks


def skip_attrs(toks, i):
    """index after any `#[...]` / `#![...]` starting at i"""
    while toks[i].text == "#":
        j = i + 1
        if toks[j].text == "!":
            j += 1
        if toks[j].text != "[":
            break
        depth = 0
        while True:
            if toks[j].text == "[":
                depth += 1
            elif toks[j].text == "]":
                depth -= 1
                if depth == 0:
                    break
            elif toks[j].kind == "eof":
                return j
            j += 1
        i = j + 1
    return i


def strip_attrs(toks):
    out, i = [], 0
    while i < len(toks):
        j = skip_attrs(toks, i)
        if j != i:
            i = j
            continue
        out.append(toks[i])
        i += 1
    return out


def matching(toks, i):
    """index of the bracket closing the one at i"""
    pairs = {"{": "}", "(": ")", "[": "]"}
    o = toks[i].text
    c = pairs[o]
    depth = 0
    while True:
        t = toks[i]
        if t.kind == "eof":
            return None
        if t.kind == "op" and t.text == o:
            depth += 1
        elif t.kind == "op" and t.text == c:
            depth -= 1
            if depth == 0:
                return i
        i += 1


# ------------------------------------------------------------------------------------------------
# types

class TVar:
    """inference variable; `lit` = comes from an integer literal (defaults to i32 like rustc)"""
    n = 0

    def __init__(self, lit=False, where=""):
        TVar.n += 1
        self.id, self.lit, self.where, self.ref = TVar.n, lit, where, None


def T(kind, *args):
    return (kind,) + args


BOOL = T("bool")


def tint(name):
    return T("int", name)


# type constructors with one argument: Option<T>, Result<T, _>, std::ops::Range<T>, std::ops::RangeInclusive<T>
UNARY = ("opt", "res", "range", "rangeincl", "ref", "elems", "iter", "slice", "rangefrom", "deque")


def strip_ref(t):
    """the referent of `&T` / `&&T` (auto-deref of method calls, field accesses and comparisons)"""
    t = prune(t)
    while isinstance(t, tuple) and t[0] == "ref":
        t = prune(t[1])
    return t


def prune(t):
    while isinstance(t, TVar) and t.ref is not None:
        t = t.ref
    if isinstance(t, tuple) and t[0] in UNARY:
        return (t[0], prune(t[1]))
    if isinstance(t, tuple) and t[0] == "tuple":  # [iteration extension] `(A, B, ..)`
        return ("tuple",) + tuple(prune(x) for x in t[1:])
    return t


def type_head(t):
    """the name under which the methods of a type are looked up"""
    if isinstance(t, tuple):
        if t[0] in ("struct", "enum", "opaque", "ext", "penum"):
            return t[1]
        if t[0] == "range":
            return "Range"
        if t[0] == "rangeincl":
            return "RangeInclusive"
    return None


def show(t):
    t = prune(t)
    if isinstance(t, TVar):
        return "{integer}" if t.lit else "_"
    if t[0] == "int":
        return t[1]
    if t[0] == "bool":
        return "bool"
    if t[0] == "struct":
        return t[1]
    if t[0] == "opt":
        return f"Option<{show(t[1])}>"
    if t[0] == "res":
        return f"Result<{show(t[1])}, _>"
    if t[0] == "ref":
        return f"&{show(t[1])}"
    if t[0] == "range":
        return f"Range<{show(t[1])}>"
    if t[0] == "rangeincl":
        return f"RangeInclusive<{show(t[1])}>"
    if t[0] in ("tparam", "enum", "opaque", "ext", "penum"):
        return t[1]
    if t[0] == "unit":
        return "()"
    if t[0] == "elems":
        return f"[{show(t[1])}]"
    if t[0] == "closure":
        return "{closure}"
    if t[0] == "array":
        return f"[{show(t[1])}; {t[2]}]"
    if t[0] == "tuple":
        return "(" + ", ".join(show(x) for x in t[1:]) + ")"
    if t[0] == "externret":
        return EXTERNS[t[1]][1].replace(" ", "") + f" [the arguments of {t[1]}]"
    if t[0] == "iter":  # [iteration extension]
        return f"impl Iterator<Item = {show(t[1])}>"
    if t[0] == "slice":
        return f"[{show(t[1])}]"
    if t[0] == "rangefrom":
        return f"RangeFrom<{show(t[1])}>"
    if t[0] == "deque":
        return f"VecDeque<{show(t[1])}>"
    if t[0] == "extval":
        return "NaiveDate [the arguments of " + t[1] + "]"
    if t[0] == "fnonce":  # [dated extension]
        return "impl FnOnce(" + ", ".join(show(x) for x in t[2:]) + ") -> " + show(t[1])
    return str(t)


def unify(a, b, where):
    a, b = prune(a), prune(b)
    if a is b:
        return
    if isinstance(a, TVar):
        if isinstance(b, TVar):
            if b.lit and not a.lit:
                a.lit = True  # still has to be an integer
            b.ref = a
            return
        if a.lit and b[0] != "int":
            fail(where, f"an integer literal cannot have type {show(b)}")
        a.ref = b
        return
    if isinstance(b, TVar):
        return unify(b, a, where)
    if a[0] != b[0]:
        fail(where, f"type mismatch: {show(a)} vs {show(b)}")
    if a[0] in UNARY:
        return unify(a[1], b[1], where)
    if a[0] == "tuple":  # [iteration extension] component-wise
        if len(a) != len(b):
            fail(where, f"type mismatch: {show(a)} vs {show(b)}")
        for x, y in zip(a[1:], b[1:]):
            unify(x, y, where)
        return
    if a != b:
        fail(where, f"type mismatch: {show(a)} vs {show(b)}")


# ------------------------------------------------------------------------------------------------
# syntax tree

class Node:
    def __init__(self, kind, line, **kw):
        self.kind, self.line, self.ty = kind, line, None
        self.__dict__.update(kw)


class Parser:
    """
    fn      := fn NAME [< generics >] ( params ) -> type [where ..] block
    generics:= 'a | T [: PartialOrd | Ord | other bounds (then T may only occur inside opaque types)] , ...
    params  := self | &['a] self | &mut self | name : type , ...
    type    := u8|..|isize | bool | Self | STRUCT | ENUM | T | &['a] type | Option<type> | Result<type, _>
             | Range<type> | RangeInclusive<type> | OPAQUE[<..>] | Self::ASSOC[<..>] | ALIAS::type
    block   := { stmt* [expr] }
    stmt    := let [mut] NAME [: type] = expr ;
             | let Some(NAME) | Ok(NAME) = expr else { return expr ; } ;
             | assert!((LIT..=LIT).contains(&NAME)) ;
             | place = expr ; | place OP= expr ;          (place: `let mut` local, field of `self` in a `&mut self` fn)
             | expr ;                                      (only the call of a `&mut self` method)
             | return expr ;                               (last statement of a block only)
    expr    := range `a..b` `a..=b` (lowest) then  || && == != < <= > >= | ^ & << >> + - * / %  (Rust precedence), `as`,
               unary - ! * &, postfix .field .0 .method(args) [index] ?
    primary := LIT | true | false | NAME | self | ( expr ) | { block } | if expr block else block
             | match expr { (LIT | Enum::V | _) => expr , .. } | return expr | None | Some(e) | Ok(e) | Err(NAME)
             | Self { field[: expr], .. } | Self(expr, ..) | STRUCT(expr, ..) | Self::f(args) | f(args) | Type::CONST
             | Enum::Variant | T::from(expr) | EXTERN::path(args) | max(a, b) | min(a, b) | std::cmp::max(a, b)
    methods := try_into() ok() expect("..") unwrap() unwrap_or(e) or_else(|| e) map_err(|_| NAME) into()
               checked_add/sub/mul(e) saturating_sub(e) trailing_zeros() count_ones() start() end() contains(&e),
               calls of translated methods, and the untranslated calls of HOLES
    """

    ASSIGN = {"=": None, "+=": "+", "-=": "-", "*=": "*", "/=": "/", "%=": "%", "|=": "|", "&=": "&", "^=": "^", "<<=": "<<", ">>=": ">>"}
    BIN = [
        ("||",), ("&&",), ("==", "!=", "<", "<=", ">", ">="), ("|",), ("^",), ("&",), ("<<", ">>"), ("+", "-"), ("*", "/", "%"),
    ]

    def __init__(self, toks, fname, structs, tparams=None, uses=(), enums=(), aliases=(), assoc=None, modelled=False, penums=()):
        self.t, self.i, self.f, self.structs = toks, 0, fname, structs
        self.modelled = modelled  # chrono mode, see CHRONO_FNS
        self.penums = set(penums)
        self.enums = set(enums)
        self.aliases = set(aliases)  # module aliases `use .. as ALIAS;` checked by the caller: `ALIAS::Name` is `Name`
        self.assoc = dict(assoc or {})  # associated types of the impl: `Self::Name<..>`
        self.tparams = dict(tparams or {})  # generic parameter -> set of trait bounds (of the impl, then of the fn)
        self.uses = set(uses)  # names of STD_USES the file imports from the expected module

    def where(self, tok=None):
        return f"{self.f}:{(tok or self.t[self.i]).line}"

    def peek(self, k=0):
        return self.t[self.i + k]

    def at(self, text):
        return self.t[self.i].text == text and self.t[self.i].kind in ("op", "id")

    def eat(self, text):
        if not self.at(text):
            fail(self.where(), f"expected `{text}`, found `{self.peek().text}` (outside the translated subset)")
        self.i += 1
        return self.t[self.i - 1]

    def close_angle(self):
        """the `>` closing a generic argument list; `>>` is one token and closes two lists"""
        if self.at(">>"):
            if getattr(self, "half", False):
                self.half = False
                self.i += 1
            else:
                self.half = True
            return
        if getattr(self, "half", False):
            fail(self.where(), "unbalanced `>>`")
        self.eat(">")

    def ident(self):
        tk = self.peek()
        if tk.kind != "id":
            fail(self.where(), f"expected an identifier, found `{tk.text}`")
        self.i += 1
        return tk.text

    # -- types
    def type_(self):
        tk = self.peek()
        if tk.text == "[" and self.f == "(tables of rs2lean.py)":
            self.i += 1
            inner = self.type_()
            self.eat("]")
            return T("elems", inner)  # the elements of an array literal (FN_HOLES)
        if tk.text == "&":
            # a shared reference to a value of the subset is the value (no `&mut`, no interior mutability, no
            # pointer identity in the subset; `&A: PartialOrd<&B>` compares the referents)
            self.i += 1
            if self.peek().kind == "life":
                self.i += 1
            if self.at("mut"):
                fail(self.where(), "`&mut` types are outside the translated subset")
            return T("ref", self.type_())
        if tk.kind == "id" and tk.text == "VecDeque" and self.peek(1).text == "<":
            # [iteration extension] `std::collections::VecDeque<T>`: the list of its elements, front first
            self.i += 1
            self.need_use("VecDeque", tk)
            self.eat("<")
            inner = self.type_()
            self.close_angle()
            return T("deque", inner)
        if tk.kind == "id" and tk.text == "ExtNaiveDate" and self.f == "(tables of rs2lean.py)":
            self.i += 1
            return T("extval", EXTVAL)
        if getattr(self, "extval", False) and [x.text for x in self.t[self.i : self.i + 4]] == ["Option", "<", "NaiveDate", ">"]:
            self.i += 4
            return T("opt", T("extval", EXTVAL))
        if tk.kind == "op" and tk.text == "(":
            # [iteration extension] a tuple type `(A, B, ..)` (at least two components)
            self.i += 1
            parts = [self.type_()]
            while self.at(","):
                self.i += 1
                parts.append(self.type_())
            self.eat(")")
            if len(parts) < 2:
                fail(self.where(tk), "a parenthesised type is outside the translated subset")
            return T("tuple", *parts)
        for path, (_, rty) in ({} if self.modelled else EXTERNS).items():  # the result type of a library call kept as its arguments
            want = rty.split()
            if [x.text for x in self.t[self.i : self.i + len(want)]] == want:
                self.i += len(want)
                return T("externret", path)
        name = self.ident()
        if name in self.aliases and self.at("::"):
            self.i += 1
            return self.type_()
        if self.modelled and name in CHRONO_TYPES:
            return T("ext", CHRONO_TYPES[name])
        if self.modelled and name == "impl" and self.peek().text in IMPL_TRAIT_AS:
            self.i += 1
            return T("ext", IMPL_TRAIT_AS[self.t[self.i - 1].text])
        if self.modelled and name == "impl" and self.peek().text == "FnOnce" and self.peek(1).text == "(":
            # [dated extension] `impl FnOnce(A, ..) -> B`: a function parameter, applied where the code calls it
            self.i += 1
            self.eat("(")
            ps = []
            while not self.at(")"):
                ps.append(self.type_())
                if not self.at(")"):
                    self.eat(",")
            self.eat(")")
            self.eat("->")
            return T("fnonce", self.type_(), *ps)
        if name == "_" and getattr(self, "infer_ok", False):
            return TVar(where=self.where(tk))  # `as _` / `Result<T, _>`: left to the inference
        if name in self.penums:
            return T("penum", name)
        if name in INT_TYPES:
            return tint(name)
        if name == "bool":
            return BOOL
        if name == "Self" and self.at("::"):
            self.i += 1
            an = self.ident()
            if an not in self.assoc:
                fail(self.where(tk), f"associated type `Self::{an}` is outside the translated subset")
            self.skip_generic_args()
            return self.assoc[an]
        if name == "Self":
            return T("struct", "Self")
        if name in OPAQUE_TYPES and name not in self.structs and name not in self.enums:
            self.skip_generic_args()
            return T("opaque", name)
        if name == "Option":
            self.eat("<")
            inner = self.type_()
            self.close_angle()
            return T("opt", inner)
        if name in self.structs:
            return T("struct", name)
        if name in self.enums:
            return T("enum", name)
        if name == "Result":
            # `Result<T, E>`: the error value is not translated (`Ok(v)` is `some v`, every `Err(..)` is `none`)
            self.eat("<")
            inner = self.type_()
            self.eat(",")
            depth = 0
            while not (depth == 0 and (self.at(">") or self.at(">>"))):
                if self.at("<"):
                    depth += 1
                elif self.at(">"):
                    depth -= 1
                elif self.peek().kind == "eof" or self.peek().text in ("{", ";", "("):
                    fail(self.where(), "unterminated `Result<..>`")
                self.i += 1
            self.close_angle()
            return T("res", inner)
        if name in self.tparams:
            if self.tparams[name] is None:
                fail(self.where(tk), f"the generic parameter `{name}` (not bounded by PartialOrd / Ord alone) used as a type of its own")
            return T("tparam", name)
        if name in ("Range", "RangeInclusive"):
            self.need_use(name, tk)
            self.eat("<")
            inner = self.type_()
            self.close_angle()
            return T("range" if name == "Range" else "rangeincl", inner)
        fail(self.where(tk), f"type `{name}` is outside the translated subset")

    def skip_generic_args(self):
        if self.at("<"):
            depth = 0
            while True:
                if self.at("<"):
                    depth += 1
                elif self.at(">"):
                    depth -= 1
                elif self.at(">>"):
                    depth -= 2
                elif self.peek().kind == "eof" or self.peek().text in ("{", ";"):
                    fail(self.where(), "unterminated generic arguments")
                self.i += 1
                if depth <= 0:
                    if depth < 0:
                        fail(self.where(), "unbalanced `>>`")
                    return

    def need_use(self, name, tk):
        if name not in self.uses:
            fail(self.where(tk), f"`{name}` is translated as `{STD_USES[name]}::{name}`, but the file does not import it from there")

    def generics(self):
        """`< T : Bound [+ Bound] , .. >` with bounds among PartialOrd / Ord"""
        self.eat("<")
        while not self.at(">"):
            tk = self.peek()
            if tk.kind == "life":
                self.i += 1  # a lifetime parameter: references are values, lifetimes leave no trace
                if self.at(":"):
                    fail(self.where(), "lifetime bounds are outside the translated subset")
                if not self.at(">"):
                    self.eat(",")
                continue
            name = self.ident()
            if name in self.tparams or name in self.structs or name in INT_TYPES:
                fail(self.where(tk), f"generic parameter `{name}` shadows another name")
            bounds, foreign = set(), False
            if self.at(":"):
                self.i += 1
                while True:
                    btk = self.peek()
                    if btk.kind == "life":
                        self.i += 1
                    else:
                        b = self.ident()
                        if b not in ORD_BOUNDS:
                            foreign = True
                        bounds.add(b)
                    if not self.at("+"):
                        break
                    self.i += 1
            # a parameter with another bound (`L: Localize`) may only occur inside an opaque type: it is `None`
            # here, `type_` refuses it as a type of its own, and it does not reach the Lean definition
            self.tparams[name] = None if foreign else bounds
            if not self.at(">"):
                self.eat(",")
        self.eat(">")

    # -- function
    def fn(self):
        line = self.eat("fn").line  # visibility / `const` before `fn` are irrelevant and not looked at
        name = self.ident()
        if self.at("<"):
            self.generics()
        self.eat("(")
        params, has_self, mut_self, ref_self = [], False, False, False
        mut_params = set()
        while not self.at(")"):
            if self.at("&") and self.peek(1).kind == "life" and self.peek(2).text == "self":
                self.i += 3
                has_self = ref_self = True
            elif self.at("&") and self.peek(1).text == "self":
                self.i += 2
                has_self = ref_self = True
            elif self.at("&") and self.peek(1).text == "mut" and self.peek(2).text == "self":
                # `&mut self`: the function is translated in state-passing style, `self -> args -> R (result × self)`
                self.i += 3
                has_self = mut_self = True
            elif self.at("&") and self.peek(1).text == "mut":
                fail(self.where(), "`&mut` parameters other than `&mut self` are outside the translated subset")
            elif self.at("self"):
                self.i += 1
                has_self = True
            else:
                if self.at("mut"):
                    # `mut name: T`: the parameter is a `let mut` local (reassigned by straight-line statements)
                    self.i += 1
                    mut_params.add(self.peek().text)
                pn = self.ident()
                self.eat(":")
                params.append((pn, self.type_()))
            if not self.at(")"):
                self.eat(",")
        self.eat(")")
        ret = None
        if self.at("->"):
            self.i += 1
            ret = self.type_()
        if ret is None:
            fail(self.where(), "a function without a return value is outside the translated subset")
        if self.at("where"):
            # `where L: Bound + .., ..`: as the bounds in `<..>`
            self.i += 1
            while not self.at("{"):
                wtk = self.peek()
                wn = self.ident()
                if wn not in self.tparams:
                    fail(self.where(wtk), "a `where` clause on something else than a generic parameter of the function")
                self.eat(":")
                foreign = False
                while True:
                    btk = self.peek()
                    if btk.kind == "life":
                        self.i += 1
                    else:
                        b = self.ident()
                        if b not in ORD_BOUNDS:
                            foreign = True
                        elif self.tparams[wn] is not None:
                            self.tparams[wn].add(b)
                    if not self.at("+"):
                        break
                    self.i += 1
                if foreign:
                    self.tparams[wn] = None
                if not self.at("{"):
                    self.eat(",")
        body = self.block()
        return Node("fn", line, name=name, params=params, has_self=has_self, mut_self=mut_self, ref_self=ref_self, ret=ret,
                    body=body, tparams=dict(self.tparams), mut_params=mut_params)

    def block(self):
        line = self.eat("{").line
        stmts, tail = [], None
        while not self.at("}"):
            if tail is not None:
                fail(self.where(), "statement after the tail expression / `return`")
            if self.at("let"):
                stmts.append(self.let())
            elif self.at("assert") and self.peek(1).text == "!":
                stmts.append(self.assert_())
            elif self.at("debug_assert") and self.peek(1).text == "!":
                # `debug_assert!(cond);` (the harness is built with debug assertions): a panic outcome when `cond` is false
                ln = self.eat("debug_assert").line
                self.eat("!")
                start = self.i
                self.eat("(")
                c = self.expr()
                if self.at(","):
                    fail(self.where(), "`debug_assert!` with a message is outside the translated subset")
                self.eat(")")
                text = "".join(tk.text for tk in self.t[start + 1 : self.i - 1])
                self.eat(";")
                stmts.append(Node("dassert", ln, c=c, text=text))
            elif self.at("return"):
                ln = self.eat("return").line
                e = self.expr()
                self.eat(";")
                tail = Node("return", ln, e=e)
            else:
                e = self.expr()
                tk = self.peek()
                if tk.kind == "op" and tk.text in self.ASSIGN:
                    # `place = e;` / `place op= e;` with place = a `let mut` local or a field of `self` (`&mut self`)
                    self.i += 1
                    rhs = self.expr()
                    self.eat(";")
                    stmts.append(Node("assign", tk.line, place=e, op=self.ASSIGN[tk.text], e=rhs))
                elif self.at(";"):
                    # only the call of a `&mut self` method may stand as a statement (checked by the type inference)
                    self.i += 1
                    stmts.append(Node("exprstmt", e.line, e=e))
                elif e.kind in ("if", "match") and not self.at("}"):
                    # `if c { .. }` / `match e { .. }` of type `()` followed by more statements (no `;` needed)
                    stmts.append(Node("exprstmt", e.line, e=e))
                else:
                    tail = e
        end = self.eat("}")
        if tail is None:
            # a block of type `()`: only as a branch of a statement-level `if` / `match` (checked by the inference)
            tail = Node("unit", end.line)
        return Node("block", line, stmts=stmts, tail=tail)

    def let(self):
        line = self.eat("let").line
        if (self.at("Some") or self.at("Ok")) and self.peek(1).text == "(":
            is_res = self.at("Ok")
            self.i += 1
            self.eat("(")
            name = self.ident()
            self.eat(")")
            pann = None
            if self.at(":"):
                self.i += 1
                self.infer_ok = True
                pann = self.type_()
                self.infer_ok = False
            self.eat("=")
            e = self.expr()
            self.eat("else")
            self.eat("{")
            self.eat("return")
            r = self.expr()
            self.eat(";")
            self.eat("}")
            self.eat(";")
            return Node("letsome", line, name=name, e=e, orelse=r, is_res=is_res, pann=pann)
        if self.at("("):
            return self.let_tuple(line)  # [iteration extension] `let (a, b) = e;`
        mut = False
        if self.at("mut"):
            self.i += 1
            mut = True  # reassigned by straight-line `x = e;` / `x op= e;` statements (no loops in the subset)
        name = self.ident()
        ann = None
        if self.at(":"):
            self.i += 1
            ann = self.type_()
        self.eat("=")
        e = self.expr()
        self.eat(";")
        return Node("let", line, name=name, ann=ann, e=e, mut=mut)

    # [iteration extension] ----------------------------------------------------------------------
    def tuple_pattern(self):
        """`(a, b, ..)`: plain names only (no nesting, no `mut`, no `ref`, no `_`)"""
        self.eat("(")
        names = []
        while True:
            if self.peek().kind != "id" or self.peek().text in ("mut", "ref", "_"):
                fail(self.where(), f"`{self.peek().text}` in a tuple pattern (nested patterns, `mut`, `ref`, `_`) is outside the translated subset")
            names.append(self.ident())
            if not self.at(","):
                break
            self.i += 1
        self.eat(")")
        if len(names) < 2 or len(set(names)) != len(names):
            fail(self.where(), "this tuple pattern is outside the translated subset")
        return names

    def let_tuple(self, line):
        names = self.tuple_pattern()
        self.eat("=")
        e = self.expr()
        self.eat(";")
        return Node("lettuple", line, names=names, e=e)

    def closure_(self):
        """`|x| expr`, `|(a, b)| expr` (one parameter, no type annotation, no `move`)"""
        tk = self.eat("|")
        if self.at("("):
            pat = self.tuple_pattern()
        else:
            pat = self.ident()
        if self.at(":") or self.at(","):
            fail(self.where(), "closures with several parameters or type annotations are outside the translated subset")
        self.eat("|")
        if self.at("->"):
            fail(self.where(), "closures with a result type annotation are outside the translated subset")
        body = self.expr()
        return Node("closure", tk.line, pat=pat, e=body, params=([(pat, None)] if isinstance(pat, str) else None), body=body)

    def iflet_(self, nostruct):
        """`if let Some(x) = e { a } else { b }` (also `else if ..`)"""
        line = self.eat("if").line
        self.eat("let")
        self.eat("Some")
        self.eat("(")
        name = self.ident()
        self.eat(")")
        self.eat("=")
        s = self.expr(nostruct=True)
        a = self.block()
        if not self.at("else"):
            fail(self.where(), "`if let` without `else` is outside the translated subset")
        self.i += 1
        if self.at("if"):
            b_line = self.peek().line
            b = Node("block", b_line, stmts=[], tail=self.primary(nostruct))
        else:
            b = self.block()
        return Node("iflet", line, name=name, e=s, a=a, b=b)
    # ---------------------------------------------------------------------------------------------

    def assert_(self):
        """exactly `assert!((LO..=HI).contains(&NAME));`"""
        line = self.eat("assert").line
        self.eat("!")
        start = self.i
        self.eat("(")
        self.eat("(")
        lo = self.int_lit()
        self.eat("..=")
        hi = self.int_lit()
        self.eat(")")
        self.eat(".")
        self.eat("contains")
        self.eat("(")
        self.eat("&")
        name = self.ident()
        self.eat(")")
        self.eat(")")
        text = "".join(tk.text for tk in self.t[start + 1 : self.i - 1])
        self.eat(";")
        return Node("assert", line, lo=lo, hi=hi, name=name, text=text)

    def int_lit(self):
        tk = self.peek()
        if tk.kind != "num":
            fail(self.where(), f"expected an integer literal, found `{tk.text}`")
        self.i += 1
        m = re.fullmatch(r"(\d[\d_]*)((?:[iu](?:8|16|32|64|size))?)", tk.text)
        if not m:
            fail(self.where(tk), f"literal `{tk.text}` is outside the translated subset")
        return Node("lit", tk.line, value=int(m.group(1).replace("_", "")), suffix=m.group(2) or None)

    # -- expressions
    def expr(self, level=-1, nostruct=False):
        if level == -1:
            # `a..b`, `a..=b`: below `||`, not associative; open-ended ranges are outside the subset
            lhs = self.expr(0, nostruct)
            if self.peek().kind == "op" and self.peek().text in ("..", "..="):
                op = self.peek()
                self.i += 1
                if op.text == ".." and self.peek().kind == "op" and self.peek().text in ("]", ")"):
                    return Node("rangefrom", op.line, l=lhs)  # [iteration extension] `a..` inside `[..]` / `(..)`
                rhs = self.expr(0, nostruct)
                if self.peek().kind == "op" and self.peek().text in ("..", "..="):
                    fail(self.where(), "chained range operator")
                return Node("range", op.line, l=lhs, r=rhs, incl=(op.text == "..="))
            return lhs
        if level == len(self.BIN):
            return self.cast(nostruct)
        lhs = self.expr(level + 1, nostruct)
        while self.peek().kind == "op" and self.peek().text in self.BIN[level]:
            op = self.peek()
            if level == 2 and getattr(lhs, "cmp_chain", False):
                fail(self.where(), "chained comparison")
            self.i += 1
            rhs = self.expr(level + 1, nostruct)
            lhs = Node("bin", op.line, op=op.text, l=lhs, r=rhs)
            if level == 2:
                lhs.cmp_chain = True
        return lhs

    def cast(self, nostruct):
        e = self.unary(nostruct)
        while self.at("as"):
            ln = self.eat("as").line
            self.infer_ok = True
            ty = self.type_()
            self.infer_ok = False
            if not isinstance(ty, TVar) and ty[0] != "int":
                fail(f"{self.f}:{ln}", "`as` towards a non-integer type")
            e = Node("cast", ln, e=e, to=ty)
        return e

    def unary(self, nostruct):
        tk = self.peek()
        if tk.kind == "op" and tk.text in ("-", "!", "*"):
            self.i += 1
            e = self.unary(nostruct)
            return Node({"-": "neg", "!": "not", "*": "deref"}[tk.text], tk.line, e=e)
        if tk.kind == "op" and tk.text == "&":
            self.i += 1
            if self.at("mut"):
                fail(self.where(), "`&mut` is outside the translated subset")
            e = self.unary(nostruct)
            return Node("ref", tk.line, e=e)  # a shared reference to a value is the value, see `type_`
        return self.postfix(nostruct)

    def args(self):
        self.eat("(")
        out = []
        while not self.at(")"):
            out.append(self.expr())
            if not self.at(")"):
                self.eat(",")
        self.eat(")")
        return out

    def postfix(self, nostruct):
        e = self.primary(nostruct)
        while True:
            if self.at("?"):
                ln = self.eat("?").line
                e = Node("try", ln, e=e)
            elif self.at("["):
                ln = self.eat("[").line
                idx = self.expr()
                self.eat("]")
                e = Node("index", ln, e=e, idx=idx)
            elif self.at("."):
                ln = self.eat(".").line
                tk = self.peek()
                if tk.kind == "num":
                    if not re.fullmatch(r"\d+", tk.text):
                        fail(self.where(), f"field `{tk.text}`")
                    self.i += 1
                    e = Node("field", ln, e=e, name=tk.text)
                else:
                    name = self.ident()
                    if self.at("::"):
                        fail(self.where(), "turbofish is outside the translated subset")
                    if self.at("("):
                        a = self.args()
                        e = Node("method", ln, e=e, name=name, args=a)
                    else:
                        e = Node("field", ln, e=e, name=name)
            else:
                return e

    def primary(self, nostruct):
        tk = self.peek()
        if tk.kind == "num":
            return self.int_lit()
        if tk.kind == "str":
            self.i += 1
            if not re.fullmatch(r'"[^"\\]*"', tk.text):
                fail(self.where(tk), "string literal with escapes")
            return Node("str", tk.line, value=tk.text[1:-1])
        if tk.kind == "op" and tk.text == "(":
            self.i += 1
            e = self.expr()
            if self.at(","):
                # [iteration extension] a tuple `(a, b, ..)`
                items = [e]
                while self.at(","):
                    self.i += 1
                    items.append(self.expr())
                self.eat(")")
                return Node("tuple", tk.line, items=items)
            if self.at(","):
                fail(self.where(), "tuples are outside the translated subset")
            self.eat(")")
            return Node("paren", tk.line, e=e)
        if tk.kind == "op" and tk.text == "[" and self.modelled:
            # `[a, b, ..]`: an array literal, only as an argument of a function of FN_HOLES (the list of its elements)
            self.i += 1
            elems = []
            while not self.at("]"):
                elems.append(self.expr())
                if self.at(";"):
                    fail(self.where(), "`[x; n]` is outside the translated subset")
                if not self.at("]"):
                    self.eat(",")
            self.eat("]")
            return Node("arraylit", tk.line, elems=elems)
        if tk.kind == "op" and tk.text == "{":
            return Node("blockexpr", tk.line, b=self.block())
        if tk.kind == "op" and tk.text == "||":
            # `|| expr`: a closure without parameters, only as the argument of `or_else`
            self.i += 1
            return Node("thunk", tk.line, e=self.expr())
        if tk.kind == "op" and tk.text == "|" and self.peek(1).text == "_" and self.peek(2).text == "|":
            # `|_| NAME`: only as the argument of `map_err` (the error value is not translated)
            self.i += 3
            body = self.peek()
            self.ident()
            return Node("errclosure", tk.line, name=body.text)
        if tk.kind == "op" and tk.text == "|":
            # `|x| e`, `|(a, b)| e` (an adaptor argument, [iteration extension]), `|x: T, y: U| e` (a local closure
            # `let f = |..| e;`, the argument of `and_then`): one node kind; `pat`/`e` for the first two, `params`/`body` always
            if self.peek(1).text == "(":
                return self.closure_()
            self.i += 1
            ps = []
            while not self.at("|"):
                pn = self.ident()
                pt = None
                if self.at(":"):
                    self.i += 1
                    pt = self.type_()
                ps.append((pn, pt))
                if not self.at("|"):
                    self.eat(",")
            self.eat("|")
            if self.at("->"):
                fail(self.where(), "closures with a result type annotation are outside the translated subset")
            body = self.expr()
            simple = len(ps) == 1 and ps[0][1] is None
            return Node("closure", tk.line, params=ps, body=body, pat=(ps[0][0] if simple else None), e=body)
        if tk.kind != "id":
            fail(self.where(), f"`{tk.text}` is outside the translated subset")
        if tk.text == "if" and self.peek(1).text == "let":
            return self.iflet_(nostruct)  # [iteration extension]
        if tk.text == "if":
            self.i += 1
            c = self.expr(nostruct=True)
            a = self.block()
            if not self.at("else"):
                # `if c { .. }` of type `()`: a statement (early `return`, assignments)
                return Node("if", tk.line, c=c, a=a, b=Node("block", tk.line, stmts=[], tail=Node("unit", tk.line)))
            self.i += 1
            if self.at("if"):
                b_line = self.peek().line
                b = Node("block", b_line, stmts=[], tail=self.primary(nostruct))
            else:
                b = self.block()
            return Node("if", tk.line, c=c, a=a, b=b)
        if tk.text == "match":
            return self.match_(nostruct)
        if tk.text == "return":
            self.i += 1
            e = self.expr()
            return Node("return", tk.line, e=e)
        if tk.text in ("loop", "while", "for", "unsafe", "move", "async", "break", "continue", "let"):
            fail(self.where(), f"`{tk.text}` is outside the translated subset")
        # path
        path = [self.ident()]
        while self.at("::"):
            self.i += 1
            if self.at("<"):
                fail(self.where(), "turbofish is outside the translated subset")
            path.append(self.ident())
        if self.at("!") and path == ["unreachable"] and self.peek(1).text == "(":
            # `unreachable!(..)`: a panic outcome (the message and its arguments are not translated)
            self.i += 1
            close = matching(self.t, self.i)
            if close is None:
                fail(self.where(tk), "unterminated `unreachable!(`")
            self.i = close + 1
            return Node("unreachable", tk.line)
        if self.at("!"):
            fail(self.where(tk), f"macro `{path[-1]}!` is outside the translated subset")
        if len(path) == 1:
            name = path[0]
            if name in ("true", "false"):
                return Node("bool", tk.line, value=(name == "true"))
            if name == "None":
                return Node("none", tk.line)
            if name == "Some":
                a = self.args()
                if len(a) != 1:
                    fail(self.where(tk), "Some takes one argument")
                return Node("some", tk.line, e=a[0])
            if name == "Ok":
                a = self.args()
                if len(a) != 1:
                    fail(self.where(tk), "Ok takes one argument")
                return Node("some", tk.line, e=a[0], result=True)
            if name == "Err":
                # the error value is not translated: it has to be a plain name (a unit struct)
                self.eat("(")
                self.ident()
                self.eat(")")
                return Node("none", tk.line, result=True)
            if name == "Self" or name in self.structs:
                if self.at("{") and not nostruct:
                    self.i += 1
                    fields = []
                    while not self.at("}"):
                        ftk = self.peek()
                        fn = self.ident()
                        if self.at(":"):
                            self.i += 1
                            fe = self.expr()
                        else:
                            fe = Node("var", ftk.line, name=fn)
                        fields.append((fn, fe))
                        if not self.at("}"):
                            self.eat(",")
                    self.eat("}")
                    return Node("structlit", tk.line, name=name, fields=fields)
                if self.at("("):
                    a = self.args()
                    return Node("structlit", tk.line, name=name, fields=[(str(k), x) for k, x in enumerate(a)])
                fail(self.where(tk), f"`{name}` used as a value")
            if self.at("("):
                a = self.args()
                return Node("call", tk.line, path=path, args=a)
            if name == "self":
                return Node("self", tk.line)
            return Node("var", tk.line, name=name)
        if len(path) > 1 and path[0] in self.aliases:
            if len(path) == 2 and self.at("(") and self.modelled and path[1] not in ("from",):
                # [dated extension] `ALIAS::f(..)`: a free function of the aliased module (checked by the inference)
                a = self.args()
                return Node("call", tk.line, path=path[1:], args=a, alias=path[0])
            path = path[1:]  # `ds::Weekday::Mon`: the alias was checked by the caller
        if path == ["Into", "into"] and not self.at("(") and self.modelled:
            return Node("intofn", tk.line)  # [dated extension] only as the argument of `Option::map`
        if not self.at("(") and self.modelled and "::".join(path) in CHRONO_CONSTS:
            return Node("chronoconst", tk.line, path="::".join(path))
        if self.at("(") and len(path) == 2 and path[0] in self.penums:
            a = self.args()
            return Node("pvariant", tk.line, enum=path[0], name=path[1], args=a)
        if not self.at("("):
            if len(path) == 2 and path[0] in self.penums:
                return Node("pvariant", tk.line, enum=path[0], name=path[1], args=[])
            if len(path) == 2 and (path[0] == "Self" or path[0] in self.enums or path[0] in self.structs):
                # a variant of a translated enum or an associated constant of a translated struct (resolved by the types)
                return Node("variant", tk.line, enum=path[0], name=path[1])
            fail(self.where(tk), f"path `{'::'.join(path)}` (constant) is outside the translated subset")
        a = self.args()
        return Node("call", tk.line, path=path, args=a)

    def dated_svariant_fields(self, enum, variant, line):
        """[dated extension] `{ f, g: None, h: Some(x), .. }` after `Enum::Variant` in a pattern"""
        self.eat("{")
        fields, rest = [], False
        while not self.at("}"):
            if self.at(".."):
                self.i += 1
                rest = True
                if not self.at("}"):
                    fail(self.where(), "`..` has to end the pattern")
                break
            ftk = self.peek()
            fn = self.ident()
            if not re.fullmatch(r"[a-z_][a-z0-9_]*", fn) or re.fullmatch(r"(tmp|ext)\d+", fn):
                fail(self.where(ftk), f"field pattern `{fn}`")
            sub = ("bind", fn)
            if self.at(":"):
                self.i += 1
                if self.at("None"):
                    self.i += 1
                    sub = ("none",)
                elif self.at("Some") and self.peek(1).text == "(" and self.peek(2).kind == "id" and self.peek(3).text == ")" \
                        and re.fullmatch(r"[a-z_][a-z0-9_]*", self.peek(2).text) and not re.fullmatch(r"(tmp|ext)\d+", self.peek(2).text):
                    sub = ("some", self.peek(2).text)
                    self.i += 4
                else:
                    fail(self.where(), "only `field`, `field: None`, `field: Some(name)` are translated inside a struct-variant pattern")
            fields.append((fn, sub))
            if not self.at("}"):
                self.eat(",")
        self.eat("}")
        return Node("svariant", line, enum=enum, name=variant, fields=fields, rest=rest)

    def match_(self, nostruct):
        """`match e { PAT => expr, .. }` with PAT an integer literal, `Self::Variant` / `Enum::Variant`, or `_` (last)"""
        line = self.eat("match").line
        scrut = self.expr(nostruct=True)
        self.eat("{")
        arms = []
        while not self.at("}"):
            ptk = self.peek()
            if ptk.kind == "num":
                pat = self.int_lit()
            elif ptk.text == "_":
                self.i += 1
                pat = Node("wild", ptk.line)
            elif ptk.kind == "id":
                path = [self.ident()]
                while self.at("::"):
                    self.i += 1
                    path.append(self.ident())
                if len(path) > 1 and path[0] in self.aliases:
                    path = path[1:]
                if len(path) == 1 and path[0] not in ("Some", "None", "Ok", "Err") and re.fullmatch(r"[a-z_][a-z0-9_]*", path[0]) and not self.at("("):
                    pat = Node("bindall", ptk.line, name=path[0])  # a final arm that binds the value
                elif len(path) == 2 and path[0] in self.penums and self.at("{"):
                    # [dated extension] a struct-variant pattern, or-patterns of these, a match guard
                    pat = self.dated_svariant_fields(path[0], path[1], ptk.line)
                    alts = [pat]
                    while self.at("|"):
                        self.i += 1
                        atk = self.peek()
                        apath = [self.ident()]
                        while self.at("::"):
                            self.i += 1
                            apath.append(self.ident())
                        if len(apath) > 1 and apath[0] in self.aliases:
                            apath = apath[1:]
                        if len(apath) != 2 or apath[0] not in self.penums or not self.at("{"):
                            fail(self.where(atk), "this alternative of an or-pattern is outside the translated subset")
                        alts.append(self.dated_svariant_fields(apath[0], apath[1], atk.line))
                    if len(alts) > 1:
                        pat = Node("orpat", ptk.line, alts=alts, enum=alts[0].enum)
                    if self.at("if"):
                        self.i += 1
                        pat.guard = self.expr(nostruct=True)
                elif len(path) == 2 and path[0] in self.penums:
                    binds = []
                    if self.at("("):
                        self.i += 1
                        while not self.at(")"):
                            btk = self.peek()
                            if btk.kind != "id" or not re.fullmatch(r"[a-z_][a-z0-9_]*", btk.text):
                                fail(self.where(), "only plain bindings inside a variant pattern are translated")
                            binds.append(self.ident())
                            if not self.at(")"):
                                self.eat(",")
                        self.eat(")")
                    pat = Node("pvariant", ptk.line, enum=path[0], name=path[1], binds=binds)
                elif len(path) != 2:
                    fail(self.where(ptk), "this pattern is outside the translated subset")
                else:
                    pat = Node("variant", ptk.line, enum=path[0], name=path[1])
            else:
                fail(self.where(), f"pattern `{ptk.text}` is outside the translated subset")
            if self.at("|") or self.at("if") or self.at("@") or self.at("..=") or self.at("("):
                fail(self.where(), "this pattern is outside the translated subset")
            self.eat("=>")
            if self.at("{"):
                body = self.block()
                if self.at(","):
                    self.i += 1
            else:
                bl = self.peek().line
                body = Node("block", bl, stmts=[], tail=self.expr())
                if not self.at("}"):
                    self.eat(",")
            if arms and arms[-1][0].kind in ("wild", "bindall"):
                fail(self.where(ptk), "an arm after `_`")
            arms.append((pat, body))
        self.eat("}")
        if not arms:
            fail(f"{self.f}:{line}", "empty match")
        return Node("match", line, scrut=scrut, arms=arms)


# ------------------------------------------------------------------------------------------------
# locating items

def find_struct(toks, fname, name, known=(), known_enums=(), known_penums=()):
    """`struct NAME { f: int, .. }` or `struct NAME(int | [ELEM; N], ..);` -> ordered [(field, type)];
    ELEM an integer type or a struct of `known` (translated before)"""
    for i, tk in enumerate(toks):
        if tk.text == "struct" and tk.kind == "id" and toks[i + 1].text == name:
            j = i + 2
            fields = []
            if toks[j].text == "<":
                fail(f"{fname}:{tk.line}", f"struct {name} is generic")
            if toks[j].text == "{":
                end = matching(toks, j)
                j += 1
                while j < end:
                    if toks[j].text == "pub":
                        j += 1
                        if toks[j].text == "(":
                            j = matching(toks, j) + 1
                    fn, colon = toks[j], toks[j + 1]
                    if fn.kind != "id" or colon.text != ":":
                        fail(f"{fname}:{fn.line}", f"struct {name}: unexpected `{fn.text}`")
                    tp = Parser(toks, fname, set(known), uses=set(STD_USES), enums=set(known_enums), penums=set(known_penums))
                    tp.i = j + 2
                    ft = tp.type_()
                    if ft[0] not in ("int", "struct", "enum", "penum", "bool", "rangeincl", "range", "deque") or \
                            (ft[0] in ("range", "rangeincl") and ft[1][0] not in ("int", "struct")):
                        fail(f"{fname}:{fn.line}", f"struct {name}: the type of field {fn.text} is outside the translated subset")
                    fields.append((fn.text, ft))
                    j = tp.i
                    if j < end:
                        if toks[j].text != ",":
                            fail(f"{fname}:{toks[j].line}", f"struct {name}: unexpected `{toks[j].text}`")
                        j += 1
                return fields, tk.line
            if toks[j].text == "(":
                end = matching(toks, j)
                j += 1
                k = 0
                while j < end:
                    if toks[j].text == "pub":
                        j += 1
                        if toks[j].text == "(":
                            j = matching(toks, j) + 1
                    ty = toks[j]
                    if ty.text == "[":
                        close = matching(toks, j)
                        inner = toks[j + 1 : close]
                        if len(inner) != 3 or inner[1].text != ";" or not re.fullmatch(r"\d+", inner[2].text) or \
                                not (inner[0].text in INT_TYPES or inner[0].text in known):
                            fail(f"{fname}:{ty.line}", f"struct {name}: an array field that is not `[<integer type or translated struct>; N]`")
                        elem = tint(inner[0].text) if inner[0].text in INT_TYPES else T("struct", inner[0].text)
                        fields.append((str(k), T("array", elem, int(inner[2].text))))
                        k += 1
                        j = close + 1
                    else:
                        if ty.text not in INT_TYPES:
                            fail(f"{fname}:{ty.line}", f"struct {name}: a field that is not an integer type")
                        fields.append((str(k), tint(ty.text)))
                        k += 1
                        j += 1
                    if j < end:
                        if toks[j].text != ",":
                            fail(f"{fname}:{toks[j].line}", f"struct {name}: unexpected `{toks[j].text}`")
                        j += 1
                return fields, tk.line
            fail(f"{fname}:{tk.line}", f"struct {name}: unexpected shape")
    fail(fname, f"struct {name} not found")


def find_enum(toks, fname, name):
    """`enum NAME { A = 1, B = 2, .. }` (all discriminants explicit) or `enum NAME { A, B, .. }` (none; 0, 1, ..):
    fieldless variants only -> [(variant, discriminant)], line"""
    for i, tk in enumerate(toks):
        if tk.text == "enum" and tk.kind == "id" and toks[i + 1].text == name:
            j = i + 2
            if toks[j].text != "{":
                fail(f"{fname}:{tk.line}", f"enum {name}: generic or unexpected shape")
            end = matching(toks, j)
            j += 1
            out, explicit = [], None
            while j < end:
                v = toks[j]
                if v.kind != "id":
                    fail(f"{fname}:{v.line}", f"enum {name}: unexpected `{v.text}`")
                j += 1
                if toks[j].text == "=":
                    if explicit is False or toks[j + 1].kind != "num" or not re.fullmatch(r"\d+", toks[j + 1].text):
                        fail(f"{fname}:{v.line}", f"enum {name}: discriminants must be all explicit plain literals or all implicit")
                    explicit = True
                    out.append((v.text, int(toks[j + 1].text)))
                    j += 2
                else:
                    if explicit is True:
                        fail(f"{fname}:{v.line}", f"enum {name}: discriminants must be all explicit plain literals or all implicit")
                    explicit = False
                    out.append((v.text, len(out)))
                if j < end:
                    if toks[j].text != ",":
                        fail(f"{fname}:{toks[j].line}", f"enum {name}: variant {v.text} has fields (outside the translated subset)")
                    j += 1
            if len({n for n, _ in out}) != len(out) or len({d for _, d in out}) != len(out) or not out:
                fail(f"{fname}:{tk.line}", f"enum {name}: duplicate variant or discriminant")
            return out, tk.line
    fail(fname, f"enum {name} not found")


def find_penum(toks, fname, name, structs, enums):
    """`enum NAME { A, B(T, ..), .. }`: unit and tuple variants over integer / chrono / translated types
    -> [(variant, [field types])], line"""
    for i, tk in enumerate(toks):
        if tk.text == "enum" and tk.kind == "id" and toks[i + 1].text == name:
            j = i + 2
            if toks[j].text != "{":
                fail(f"{fname}:{tk.line}", f"enum {name}: generic or unexpected shape")
            end = matching(toks, j)
            j += 1
            out = []
            while j < end:
                v = toks[j]
                if v.kind != "id":
                    fail(f"{fname}:{v.line}", f"enum {name}: unexpected `{v.text}`")
                j += 1
                tys = []
                if toks[j].text == "(":
                    close = matching(toks, j)
                    tp = Parser(toks, fname, set(structs), uses=set(STD_USES), enums=set(enums), modelled=True)
                    tp.i = j + 1
                    while tp.i < close:
                        ft = tp.type_()
                        if ft[0] not in ("int", "ext", "bool", "enum", "struct"):
                            fail(f"{fname}:{v.line}", f"enum {name}: the payload of {v.text} is outside the translated subset")
                        tys.append(ft)
                        if tp.i < close:
                            tp.eat(",")
                    j = close + 1
                elif toks[j].text == "{":
                    # [dated extension] a struct variant `V { f: T, .. }`: constructor arguments named after the fields
                    close = matching(toks, j)
                    tp = Parser(toks, fname, set(structs), uses=set(STD_USES), enums=set(enums), modelled=True)
                    tp.i = j + 1
                    fnames = []
                    while tp.i < close:
                        fnames.append(tp.ident())
                        tp.eat(":")
                        ft = tp.type_()
                        if ft[0] not in ("int", "ext", "bool", "enum") and not (ft[0] == "opt" and ft[1][0] == "int"):
                            fail(f"{fname}:{v.line}", f"enum {name}: the field {fnames[-1]} of {v.text} is outside the translated subset")
                        tys.append(ft)
                        if tp.i < close:
                            tp.eat(",")
                    if len(set(fnames)) != len(fnames) or not fnames:
                        fail(f"{fname}:{v.line}", f"enum {name}: fields of {v.text}")
                    DATED_PENUM_FIELDS[(name, v.text)] = fnames
                    j = close + 1
                elif toks[j].text in ("{", "="):
                    fail(f"{fname}:{v.line}", f"enum {name}: variant {v.text} has named fields / a discriminant (outside the translated subset)")
                out.append((v.text, tys))
                if j < end:
                    if toks[j].text != ",":
                        fail(f"{fname}:{toks[j].line}", f"enum {name}: unexpected `{toks[j].text}`")
                    j += 1
            if len({n for n, _ in out}) != len(out) or not out:
                fail(f"{fname}:{tk.line}", f"enum {name}: duplicate variant")
            return out, tk.line
    fail(fname, f"enum {name} not found")


def find_local_fns(tk):
    """the names of the free functions a file defines (top level)"""
    out, depth = [], 0
    for i, t in enumerate(tk):
        if t.kind == "op" and t.text == "{":
            depth += 1
        elif t.kind == "op" and t.text == "}":
            depth -= 1
        elif depth == 0 and t.kind == "id" and t.text == "fn" and tk[i + 1].kind == "id":
            out.append(tk[i + 1].text)
    return out


def arm_function(tk, rel, o, lean_name, etk, erel, ename, vname, subpats, aliases):
    """the tokens of `fn LEAN_NAME(params without self, bindings of the arm's pattern) -> R { prefix statements; arm body }`
    for the arm `ENUM::VARIANT { .. }` (with the sub-patterns `subpats`) of the `match self { .. }` that ends the function
    whose `fn` token is at `o`; the types of the bindings are read from the declaration of the enum (file `erel`)"""
    def W(i):
        return f"{rel}:{tk[i].line}"
    # signature
    po = o + 2
    if tk[po].text == "<":
        depth = 0
        while True:
            depth += {"<": 1, ">": -1}.get(tk[po].text, 0)
            po += 1
            if depth == 0:
                break
    if tk[po].text != "(":
        fail(W(po), "unexpected function signature")
    pc = matching(tk, po)
    params = tk[po + 1 : pc]
    if [x.text for x in params[:2]] != ["&", "self"]:
        fail(W(po), "the function of an arm target has to take `&self`")
    params = params[3:] if len(params) > 2 and params[2].text == "," else params[2:]
    bo = pc
    while tk[bo].text != "{":
        if tk[bo].kind == "eof":
            fail(W(pc), "no body")
        bo += 1
    be = matching(tk, bo)
    # the last statement of the body: `match self { .. }`
    depth, mo = 0, None
    for i in range(bo + 1, be):
        t = tk[i].text
        if tk[i].kind == "op" and t in "{([":
            depth += 1
        elif tk[i].kind == "op" and t in "})]":
            depth -= 1
        elif depth == 0 and t == "match" and tk[i + 1].text == "self" and tk[i + 2].text == "{":
            mo = i
            break
    if mo is None or matching(tk, mo + 2) != be - 1:
        fail(W(bo), "the body does not end with `match self { .. }`")
    prefix = tk[bo + 1 : mo]
    me = be - 1
    # the declaration of the variant
    decl = None
    for i, t in enumerate(etk):
        if t.text == "enum" and t.kind == "id" and etk[i + 1].text == ename and etk[i + 2].text == "{":
            ee = matching(etk, i + 2)
            j, depth = i + 3, 0
            while j < ee:
                if depth == 0 and etk[j].text == vname and etk[j + 1].text == "{" and etk[j - 1].text in ("{", ","):
                    decl = (j + 1, matching(etk, j + 1))
                    break
                if etk[j].kind == "op" and etk[j].text in "{([":
                    depth += 1
                elif etk[j].kind == "op" and etk[j].text in "})]":
                    depth -= 1
                j += 1
    if decl is None:
        fail(erel, f"`enum {ename} {{ .. {vname} {{ .. }} .. }}` not found")
    ftypes, j = {}, decl[0] + 1
    while j < decl[1]:
        if etk[j].text == "pub":
            j += 1
        fn_, j0, depth = etk[j].text, j + 2, 0
        if etk[j + 1].text != ":":
            fail(f"{erel}:{etk[j].line}", f"enum {ename}::{vname}: unexpected `{etk[j + 1].text}`")
        j = j0
        while j < decl[1] and not (depth == 0 and etk[j].text == ","):
            depth += {"<": 1, "(": 1, ">": -1, ")": -1, ">>": -2}.get(etk[j].text, 0)
            j += 1
        ftypes[fn_] = etk[j0:j]
        j += 1
    # the arms
    found, i = [], mo + 3
    while i < me:
        ps = i
        while tk[i].text != "=>":
            if tk[i].kind == "eof" or i >= me:
                fail(W(ps), "arm without `=>`")
            if tk[i].kind == "op" and tk[i].text in "{([":
                i = matching(tk, i)
            i += 1
        pat = tk[ps:i]
        i += 1
        if tk[i].text == "{":
            body = (i, matching(tk, i))
            i = body[1] + 1
        else:
            bs, depth = i, 0
            while i < me and not (depth == 0 and tk[i].text == ","):
                if tk[i].kind == "op" and tk[i].text in "{([":
                    i = matching(tk, i)
                i += 1
            body = (bs - 1, i)  # exclusive bounds around the expression
        if i < me and tk[i].text == ",":
            i += 1
        ptx = [x.text for x in pat]
        while len(ptx) > 2 and ptx[0] in aliases and ptx[1] == "::":
            ptx, pat = ptx[2:], pat[2:]
        if ptx[:4] == [ename, "::", vname, "{"] and ptx[-1] == "}":
            # fields: `name`, `name: None`, `name: Some(binding)`
            fields, k, inner = {}, 0, pat[4:-1]
            while k < len(inner):
                fname2 = inner[k].text
                if inner[k].kind != "id":
                    fail(f"{rel}:{inner[k].line}", "this pattern is outside the translated subset")
                k += 1
                sub = None
                if k < len(inner) and inner[k].text == ":":
                    if inner[k + 1].text == "None":
                        sub, k = ("None", None), k + 2
                    elif [x.text for x in inner[k + 1 : k + 3]] == ["Some", "("] and inner[k + 4].text == ")" and inner[k + 3].kind == "id":
                        sub, k = ("Some", inner[k + 3].text), k + 5
                    else:
                        fail(f"{rel}:{inner[k].line}", "this sub-pattern is outside the translated subset")
                fields[fname2] = sub
                if k < len(inner):
                    if inner[k].text != ",":
                        fail(f"{rel}:{inner[k].line}", "this pattern is outside the translated subset")
                    k += 1
            if {f: (v[0] if v else None) for f, v in fields.items() if v} == subpats:
                found.append((fields, body, pat[0].line))
    if len(found) != 1:
        fail(W(mo), f"{len(found)} arms `{ename}::{vname} {{ .. }}` with the sub-patterns {subpats} found")
    fields, body, pline = found[0]
    if set(fields) != set(ftypes):
        fail(f"{rel}:{pline}", f"the pattern does not name every field of {ename}::{vname} (`..` is outside the translated subset)")

    def mk(text, line, kind=None):
        return Tok(kind or ("id" if re.match(r"\w", text) else "op"), text, line)
    extra = []
    for f in ftypes:  # declaration order
        sub = fields[f]
        if sub and sub[0] == "None":
            continue
        ty = ftypes[f]
        name = f
        if sub:
            if [x.text for x in ty[:2]] != ["Option", "<"] or ty[-1].text != ">":
                fail(f"{rel}:{pline}", f"`{f}: Some(..)`: the field is not an `Option<..>`")
            ty, name = ty[2:-1], sub[1]
        extra += [mk(",", pline)] if (extra or params) else []
        extra += [mk(name, pline), mk(":", pline), mk("&", pline)] + [Tok(x.kind, x.text, pline) for x in ty]
    if params and params[-1].text == ",":
        params = params[:-1]
    inner = tk[body[0] + 1 : body[1]]
    syn = [mk("fn", tk[o].line), mk(lean_name, tk[o].line)] + tk[o + 2 : po] + [mk("(", tk[po].line)] + params + extra + [mk(")", tk[pc].line)] \
        + tk[pc + 1 : bo] + [mk("{", tk[bo].line)] + prefix + inner + [mk("}", tk[be].line), Tok("eof", "", tk[be].line)]
    return syn


def expand_macro(toks, fname, macro, arg):
    """The tokens `macro!(.., arg, ..)` expands to for `arg`, for a macro of exactly this shape:

        macro_rules! M {
            ( $x: ty ) => { BODY };
            ( $x: ty, $( $tail: tt )+ ) => { M!($x); M!($($tail)+); };
        }
        M!(t1, t2, ..);        -- one invocation, at top level, each ti a single identifier, `arg` among them

    i.e. BODY is instantiated once per listed type; the result is BODY with `$x` replaced by `arg` (the line
    numbers are those of BODY)."""
    texts = [tk.text for tk in toks]
    defs = [i for i in range(len(toks) - 3) if texts[i : i + 4] == ["macro_rules", "!", macro, "{"]]
    if len(defs) != 1:
        fail(fname, f"macro_rules! {macro}: {len(defs)} definitions found")
    o = defs[0] + 3
    end = matching(toks, o)
    arms, j = [], o + 1
    while j < end:
        if texts[j] != "(":
            fail(f"{fname}:{toks[j].line}", f"macro {macro}: unexpected `{texts[j]}`")
        pe = matching(toks, j)
        if texts[pe + 1] != "=>" or texts[pe + 2] != "{":
            fail(f"{fname}:{toks[pe].line}", f"macro {macro}: unexpected arm shape")
        be = matching(toks, pe + 2)
        arms.append((texts[j + 1 : pe], toks[pe + 3 : be]))
        j = be + 1
        if j < end and texts[j] == ";":
            j += 1
    if len(arms) != 2 or len(arms[0][0]) != 4 or arms[0][0][0] != "$" or arms[0][0][2:] != [":", "ty"]:
        fail(fname, f"macro {macro}: not of the shape `($x: ty) => {{..}}; ($x: ty, $($tail: tt)+) => {{..}}`")
    x = arms[0][0][1]
    tail = arms[1][0][8] if len(arms[1][0]) == 13 else None
    if arms[1][0] != ["$", x, ":", "ty", ",", "$", "(", "$", tail, ":", "tt", ")", "+"]:
        fail(fname, f"macro {macro}: the second arm is not `($x: ty, $($tail: tt)+)`")
    want_body = [macro, "!", "(", "$", x, ")", ";", macro, "!", "(", "$", "(", "$", tail, ")", "+", ")", ";"]
    if [tk.text for tk in arms[1][1]] != want_body:
        fail(fname, f"macro {macro}: the second arm is not `{macro}!($x); {macro}!($($tail)+);`")
    # the invocation
    inv, depth = [], 0
    for i, tk in enumerate(toks):
        if tk.kind == "op" and tk.text == "{":
            depth += 1
        elif tk.kind == "op" and tk.text == "}":
            depth -= 1
        elif depth == 0 and tk.text == macro and texts[i + 1] == "!" and texts[i + 2] == "(" and texts[i - 1] != "!":
            inv.append(i)
    if len(inv) != 1:
        fail(fname, f"macro {macro}: {len(inv)} invocations at top level")
    a = inv[0] + 2
    ae = matching(toks, a)
    items = texts[a + 1 : ae]
    if any((k % 2 == 1) != (t == ",") for k, t in enumerate(items)) or any(toks[a + 1 + k].kind != "id" for k in range(0, len(items), 2)):
        fail(f"{fname}:{toks[a].line}", f"macro {macro}: the invocation is not a list of identifiers")
    if arg not in items[::2]:
        fail(f"{fname}:{toks[a].line}", f"macro {macro} is not invoked with `{arg}`")
    out, body, i = [], arms[0][1], 0
    while i < len(body):
        if body[i].text == "$":
            if body[i + 1].text != x:
                fail(f"{fname}:{body[i].line}", f"macro {macro}: unknown metavariable ${body[i + 1].text}")
            out.append(Tok("id", arg, body[i].line))
            i += 2
        else:
            out.append(body[i])
            i += 1
    out.append(Tok("eof", "", body[-1].line if body else 0))
    return out


def derives_of(raw, name):
    """the traits in the `#[derive(..)]` attributes in front of `struct NAME` (on the tokens WITH attributes)"""
    for i, tk in enumerate(raw):
        if tk.text in ("struct", "enum") and tk.kind == "id" and raw[i + 1].text == name:
            out, j = set(), i - 1
            while j >= 0 and raw[j].text in ("pub", ")", "crate", "("):
                j -= 1  # `pub`, `pub(crate)`
            while j >= 0 and raw[j].text == "]":
                depth, o = 0, j
                while True:
                    if raw[o].text == "]":
                        depth += 1
                    elif raw[o].text == "[":
                        depth -= 1
                        if depth == 0:
                            break
                    o -= 1
                if o < 1 or raw[o - 1].text != "#":
                    break
                inner = [t.text for t in raw[o + 1 : j]]
                if inner[:2] == ["derive", "("] and inner[-1] == ")":
                    out |= {x for x in inner[2:-1] if x != ","}
                j = o - 2
            return out
    return set()


def find_const(toks, fname, impl_ty, name):
    """index of `const NAME` inside `impl TYPE {` (depth 0 of the impl)"""
    texts = [tk.text for tk in toks]
    header = ["impl", impl_ty, "{"]
    found = []
    for b in [i for i in range(len(texts) - 3) if texts[i : i + 3] == header]:
        o = b + 2
        end = matching(toks, o)
        depth = 0
        for i in range(o + 1, end):
            if texts[i] == "{":
                depth += 1
            elif texts[i] == "}":
                depth -= 1
            elif depth == 0 and texts[i] == "const" and texts[i + 1] == name and texts[i + 2] == ":":
                found.append(i)
    if len(found) != 1:
        fail(fname, f"associated constant {impl_ty}::{name}: {len(found)} definitions found")
    return found[0]


def has_use_as(toks, path, alias):
    """`use PATH as ALIAS;` or `use PATH::{self as ALIAS, ..};`"""
    segs = [x for seg in path.split("::") for x in (seg, "::")][:-1]
    want = ["use"] + segs + ["as", alias, ";"]
    want2 = ["use"] + segs + ["::", "{", "self", "as", alias]
    texts = [tk.text for tk in toks]
    return any(texts[i : i + len(want)] == want or (texts[i : i + len(want2)] == want2 and texts[i + len(want2)] in (",", "}"))
               for i in range(len(texts) - len(want) + 1))


def has_deref_to_field0(toks, name, fty):
    """exactly `impl Deref for NAME { type Target = T; fn deref(&self) -> &Self::Target { &self.0 } }`"""
    want = f"impl Deref for {name} {{ type Target = {fty} ; fn deref ( & self ) -> & Self :: Target {{ & self . 0 }} }}".split()
    texts = [tk.text for tk in toks]
    for i in range(len(texts) - len(want)):
        if texts[i : i + len(want)] == want:
            return True
    return False


def file_uses(toks):
    """the (module, name) pairs the file imports at top level: `use a::b::Name;` or `use a::b::{Name, Other};`
    (no renaming, no glob, no nesting)"""
    out = set()
    texts = [tk.text for tk in toks]
    depth = 0
    for i, tk in enumerate(toks):
        if tk.kind == "op" and tk.text == "{":
            depth += 1
        elif tk.kind == "op" and tk.text == "}":
            depth -= 1
        elif depth == 0 and tk.kind == "id" and tk.text == "use":
            j = i + 1
            path = []
            while toks[j].kind == "id" and texts[j + 1] == "::":
                path.append(texts[j])
                j += 2
            mod = "::".join(path)
            if toks[j].kind == "id" and texts[j + 1] == ";":
                names = [texts[j]]
            elif texts[j] == "{":
                end = matching(toks, j)
                inner = texts[j + 1 : end]
                if any(x in ("{", "as", "*", "::") for x in inner):
                    continue
                names = [x for x in inner if x != ","]
            else:
                continue
            for n in names:
                out.add((mod, n))
    return out


def std_uses(toks):
    """the names of STD_USES that the file imports from the expected module"""
    return {n for m, n in file_uses(toks) if STD_USES.get(n) == m}


def find_impl_fns(toks, fname, impl_ty, trait, names, header=None):
    """token index of the `fn` item (possibly preceded by pub/const) for each name, inside
    `impl [Trait for] Type {` (or at top level when impl_ty is None); `header`: the tokens of a generic
    impl header given in full"""
    found = {}
    if impl_ty is None:
        depth = 0
        for i, tk in enumerate(toks):
            if tk.kind == "op" and tk.text == "{":
                depth += 1
            elif tk.kind == "op" and tk.text == "}":
                depth -= 1
            elif depth == 0 and tk.kind == "id" and tk.text == "fn" and toks[i + 1].text in names:
                if toks[i + 1].text in found:
                    fail(f"{fname}:{tk.line}", f"two functions named {toks[i + 1].text}")
                found[toks[i + 1].text] = i
    else:
        header = (header + ["{"]) if header else ["impl"] + ([trait, "for"] if trait else []) + [impl_ty, "{"]
        texts = [tk.text for tk in toks]
        blocks = [i for i in range(len(texts) - len(header)) if texts[i : i + len(header)] == header]
        if not blocks:
            fail(fname, f"`{' '.join(header)}` not found")
        for b in blocks:
            o = b + len(header) - 1
            end = matching(toks, o)
            depth = 0
            for i in range(o + 1, end):
                tk = toks[i]
                if tk.kind == "op" and tk.text == "{":
                    depth += 1
                elif tk.kind == "op" and tk.text == "}":
                    depth -= 1
                elif depth == 0 and tk.kind == "id" and tk.text == "fn" and toks[i + 1].text in names:
                    if toks[i + 1].text in found:
                        fail(f"{fname}:{tk.line}", f"two functions named {impl_ty}::{toks[i + 1].text}")
                    found[toks[i + 1].text] = i
    for n in names:
        if n not in found:
            fail(fname, f"function {(impl_ty + '::') if impl_ty else ''}{n} not found")
    return found


# ------------------------------------------------------------------------------------------------
# type inference

def parse_type_str(text, structs, enums):
    """a type of the tables (OPAQUE_FIELDS, HOLES) given as space-separated tokens"""
    toks = [Tok("op" if not re.match(r"\w", x) else "id", x, 0) for x in text.split()] + [Tok("eof", "", 0)]
    p = Parser(toks, "(tables of rs2lean.py)", set(structs), uses=set(STD_USES), enums=set(enums))
    t = p.type_()
    if p.peek().kind != "eof":
        fail("(tables of rs2lean.py)", f"type `{text}`")
    return t


def strip_paren(e):
    while e.kind == "paren":
        e = e.e
    return e


def contains_return(n):
    """`return`, `?` or `let .. else { return }` somewhere inside (not looking into local closures)"""
    if isinstance(n, Node):
        if n.kind in ("return", "try", "letsome"):
            return True
        if n.kind == "closure":
            return False
        return any(contains_return(v) for key, v in n.__dict__.items() if key not in ("ty", "callee", "bin", "ret", "free", "closure"))
    if isinstance(n, (list, tuple)):
        return any(contains_return(x) for x in n)
    return False


def bound_names(b):
    """the names a block binds at its top level"""
    return [s.name for s in b.stmts if s.kind in ("let", "letsome")]


class FnInfo:
    def __init__(self, key, ns, lean_name, node, self_ty, fname, self_t=None, uses=()):
        self.key, self.ns, self.lean_name, self.node, self.self_ty, self.fname = key, ns, lean_name, node, self_ty, fname
        # self_ty: the name of the impl's type (sites, method lookup); self_t: the type itself
        self.self_t = self_t if self_t is not None else (T("struct", self_ty) if self_ty else None)
        self.uses = set(uses)
        self.calls = []
        self.imports = set()  # (module, name) pairs of the file's `use` items
        self.holes = []  # (method, line) of the untranslated calls whose results are parameters `ext<n>`
        self.is_const = False
        self.modelled = False  # chrono mode, see CHRONO_FNS
        self.fn_holes = []  # names of FN_HOLES called here: parameters `ext_<name>` of the definition
        self.local_fns = set()  # the free functions the file defines
        self.penums = {}
        self.derives = {}  # struct -> traits it derives
        self.ordered_structs = set()  # structs compared with `<` .. / max / min here

    def conc(self, t):
        """`Self` replaced by the impl's type"""
        if isinstance(t, tuple) and t[0] == "struct" and t[1] == "Self":
            if self.self_t is None:
                fail(f"{self.fname}:{self.node.line}", "`Self` outside an impl")
            return self.self_t
        if isinstance(t, tuple) and t[0] in UNARY:
            return (t[0], self.conc(t[1]))
        return t


class Infer:
    def __init__(self, fi, structs, derefs, fns, enums=None):
        self.fi, self.structs, self.derefs, self.fns = fi, structs, derefs, fns
        self.enums = enums or {}
        self.deferred = []  # checks to run after unification
        self.nodes = []

    def w(self, node):
        return f"{self.fi.fname}:{node.line}"

    def conc(self, t):
        return self.fi.conc(t)

    def run(self):
        f = self.fi.node
        self.no_ext_names(f)  # [iteration extension]
        env = {}
        if f.has_self:
            env["self"] = T("ref", self.fi.self_t) if getattr(f, "ref_self", False) else self.fi.self_t
        for pn, pt in f.params:
            env[pn] = self.conc(pt)
            if pn in getattr(f, "mut_params", ()):
                env[("mut", pn)] = True
        self.ret = self.conc(f.ret)
        t = self.block(f.body, env)
        if f.body.tail.kind != "return":
            unify(t, self.ret, self.w(f.body.tail))
        for chk in self.deferred:
            chk()
        for n in self.nodes:
            n.ty = prune(n.ty)
            self.no_vars(n.ty, n)

    def no_ext_names(self, f):
        """no parameter, local or closure parameter may be called `ext_..` (the getter parameters, see GETTERS)"""
        def walk(n):
            if isinstance(n, Node):
                names = [getattr(n, "name", None)] if n.kind in ("let", "letsome", "iflet") else []
                names += list(getattr(n, "names", [])) if n.kind == "lettuple" else []
                if n.kind == "closure":
                    names += n.pat if isinstance(n.pat, list) else [n.pat]
                for nm in names:
                    if isinstance(nm, str) and nm.startswith("ext_"):
                        fail(self.w(n), f"the name {nm} clashes with the translator's parameters")
                for key, v in n.__dict__.items():
                    if key not in ("ty", "callee", "bin"):
                        walk(v)
            elif isinstance(n, (list, tuple)):
                for x in n:
                    walk(x)
        for pn, _ in f.params:
            if pn.startswith("ext_"):
                fail(f"{self.fi.fname}:{f.line}", f"the name {pn} clashes with the translator's parameters")
        walk(f.body)

    def no_vars(self, t, n):
        if isinstance(t, TVar):
            if t.lit:
                t.ref = tint("i32")
                n.ty = prune(n.ty)
                return
            fail(self.w(n), "the type of this expression cannot be determined")
        if t[0] in UNARY:
            self.no_vars(t[1], n)
            n.ty = prune(n.ty)
        if t[0] == "tuple":  # [iteration extension]
            for x in t[1:]:
                self.no_vars(x, n)
            n.ty = prune(n.ty)

    def block(self, b, env):
        env = dict(env)
        for s in b.stmts:
            if s.kind == "let" and strip_paren(s.e).kind == "closure":
                self.local_closure(s, env)
            elif s.kind == "let":
                t = self.expr(s.e, env)
                if s.ann is not None:
                    unify(t, self.conc(s.ann), self.w(s))
                env[s.name] = t
                env[("mut", s.name)] = s.mut
                env[("id", s.name)] = object()
            elif s.kind == "assign":
                self.place_root(s.place, env, "assignment", index_ok=False)
                tp = self.expr(s.place, env)
                if s.op is None:
                    unify(self.expr(s.e, env), tp, self.w(s))
                    s.bin = None
                else:
                    # `place op= e` is `place = place op e` (the operands are evaluated before the place is written;
                    # reading the place has no effect and `e` cannot write it: mutation only happens in statements)
                    s.bin = Node("bin", s.line, op=s.op, l=s.place, r=s.e)
                    unify(self.expr(s.bin, env), tp, self.w(s))
            elif s.kind == "exprstmt" and strip_paren(s.e).kind in ("if", "match"):
                # a statement-level `if` / `match` of type `()`: its branches may assign and `return`; the rest of the
                # block is generated inside every branch (see `Gen.block`), so a name bound in a branch must not
                # shadow a name of the enclosing scope
                r = strip_paren(s.e)
                r.stmt_level = True
                unify(self.expr(s.e, env), T("unit"), self.w(s))
            elif s.kind == "dassert":
                unify(self.expr(s.c, env), BOOL, self.w(s))
            elif s.kind == "exprstmt":
                self.expr(s.e, env)
                if not getattr(strip_paren(s.e), "mutcall", False):
                    fail(self.w(s), "an expression statement that is not the call of a `&mut self` method is outside the translated subset")
            elif s.kind == "letsome":
                t = self.expr(s.e, env)
                inner = TVar(where=self.w(s))
                if getattr(s, "pann", None) is not None:
                    unify(t, self.conc(s.pann), self.w(s))
                unify(t, T("res" if s.is_res else "opt", inner), self.w(s))
                unify(self.expr(s.orelse, env), self.ret, self.w(s))
                env[s.name] = inner
                env[("mut", s.name)] = False
                env[("id", s.name)] = object()
            elif s.kind == "lettuple":
                # [iteration extension] `let (a, b) = e;`
                t = self.expr(s.e, env)
                tvs = [TVar(where=self.w(s)) for _ in s.names]
                unify(t, T("tuple", *tvs), self.w(s))
                for nm, tv in zip(s.names, tvs):
                    env[nm] = tv
                    env[("mut", nm)] = False
            elif s.kind == "assert":
                if s.name not in env:
                    fail(self.w(s), f"unknown variable {s.name}")
                s.var_ty = env[s.name]
                for l in (s.lo, s.hi):
                    unify(self.expr(l, env), env[s.name], self.w(s))
            else:
                fail(self.w(s), "statement")
        if b.tail.kind == "return":
            unify(self.expr(b.tail.e, env), self.ret, self.w(b.tail))
            b.ty = self.ret
            return TVar(where=self.w(b.tail))  # diverges: any type
        t = self.expr(b.tail, env)
        b.ty = t
        return t

    def local_closure(self, s, env):
        # `let f = |x: T, ..| body;`: a local function, expanded where it is called.  It may read the variables
        # in scope (none of them `mut`); they must still be the same bindings where it is called.
        c = strip_paren(s.e)
        if s.mut or s.ann is not None:
            fail(self.w(s), "this closure binding is outside the translated subset")
        cenv = dict(env)
        for pn, pt in c.params:
            if pt is None:
                fail(self.w(c), "a local closure needs its parameter types written out")
            cenv[pn] = self.conc(pt)
            cenv[("mut", pn)] = False
            cenv[("id", pn)] = object()
        c.ret = TVar(where=self.w(c))
        if self.has_kind(c.body, ("return", "letsome", "assign")):
            fail(self.w(c), "`return` / `let .. else` / an assignment inside a local closure is outside the translated subset")
        saved, self.ret = self.ret, c.ret
        self.in_closure = getattr(self, "in_closure", 0) + 1
        unify(self.expr(c.body, cenv), c.ret, self.w(c))
        self.in_closure -= 1
        self.ret = saved
        c.free = {n: env.get(("id", n)) for n in self.free_vars(c.body) if n in env and n not in dict(c.params)}
        for n in c.free:
            if env.get(("mut", n), False):
                fail(self.w(c), f"the closure reads the `let mut` variable `{n}`: outside the translated subset")
        env[s.name] = T("closure", c)
        env[("mut", s.name)] = False
        env[("id", s.name)] = object()

    def free_vars(self, n, acc=None):
        acc = set() if acc is None else acc
        if isinstance(n, Node):
            if n.kind == "var":
                acc.add(n.name)
            if n.kind == "call" and len(n.path) == 1:
                acc.add(n.path[0])
            for key, v in n.__dict__.items():
                if key not in ("ty", "callee", "bin", "ret", "free", "closure"):
                    self.free_vars(v, acc)
        elif isinstance(n, (list, tuple)):
            for x in n:
                self.free_vars(x, acc)
        return acc

    def has_kind(self, n, kinds):
        if isinstance(n, Node):
            if n.kind in kinds:
                return True
            return any(self.has_kind(v, kinds) for key, v in n.__dict__.items() if key not in ("ty", "callee", "bin", "ret", "free", "closure"))
        if isinstance(n, (list, tuple)):
            return any(self.has_kind(x, kinds) for x in n)
        return False

    def no_shadow(self, names, env, node):
        """the rest of the enclosing block is generated INSIDE this branch: a name bound here must not hide one that
        the rest could mean"""
        for nm in names:
            if nm in env:
                fail(self.w(node), f"`{nm}` is bound inside a branch that is followed by more code and hides an outer `{nm}`: "
                     "outside the translated subset (rename it)")

    def chrono_method(self, e, th, name, env):
        ps, rty, lean, datelike = CHRONO_METHODS[(th, name)]
        w = self.w(e)
        if datelike and ("chrono::prelude", "Datelike") not in self.fi.imports:
            fail(w, f"`.{name}()` is read as chrono's `Datelike::{name}`, but the file does not import `chrono::prelude::Datelike`")
        if len(ps) != len(e.args):
            fail(w, f".{name}(): {len(ps)} arguments expected")
        for a, p in zip(e.args, ps):
            unify(self.expr(a, env), self.chrono_type(p), self.w(a))
        e.chrono = lean
        return self.chrono_type(rty)

    def chrono_type(self, text):
        toks = [Tok("op" if not re.match(r"\w", x) else "id", x, 0) for x in text.split()] + [Tok("eof", "", 0)]
        p = Parser(toks, "(tables of rs2lean.py)", set(self.structs), uses=set(STD_USES), enums=set(self.enums), modelled=True)
        return p.type_()

    def place_root(self, p, env, what, index_ok=True):
        """`p` is a place that may be written: a `let mut` local, `self` of a `&mut self` method, or fields (and one
        array element) of these"""
        n, seen_index = p, False
        while n.kind in ("field", "index"):
            if n.kind == "index":
                if not index_ok or seen_index:
                    fail(self.w(p), f"{what}: this place expression is outside the translated subset")
                seen_index = True
            n = n.e
        if seen_index and p.kind != "index":
            fail(self.w(p), f"{what}: a field of an array element is outside the translated subset")
        if n.kind == "self":
            if not self.fi.node.mut_self:
                fail(self.w(p), f"{what} through `self`, which is not `&mut self`")
            return "self"
        if n.kind == "var":
            if not env.get(("mut", n.name), False):
                fail(self.w(p), f"{what} to `{n.name}`, which is not a `let mut` local")
            return n.name
        fail(self.w(p), f"{what}: this place expression is outside the translated subset")

    def int_of(self, t, node, what):
        t = prune(t)
        if isinstance(t, TVar):
            if not t.lit:
                fail(self.w(node), f"{what}: the operand's type must be known here")
            return None
        if t[0] != "int":
            fail(self.w(node), f"{what} on {show(t)}")
        return t[1]

    def need_int(self, t, node, what):
        def chk():
            tt = prune(t)
            if isinstance(tt, TVar) and tt.lit:
                return
            if isinstance(tt, TVar) or tt[0] != "int":
                fail(self.w(node), f"{what} on a non-integer ({show(tt)})")
        self.deferred.append(chk)

    def expr(self, e, env):
        t = self.expr_(e, env)
        e.ty = t
        self.nodes.append(e)
        return t

    def expr_(self, e, env):
        k = e.kind
        w = self.w(e)
        if k == "lit":
            if e.suffix:
                return tint(e.suffix)
            tv = TVar(lit=True, where=w)

            def chk(tv=tv, e=e):
                tt = prune(tv)
                name = tt[1] if not isinstance(tt, TVar) else "i32"
                lo, hi = INT_TYPES[name]
                if not (lo <= e.value <= hi):
                    fail(w, f"literal {e.value} out of range for {name}")
            self.deferred.append(chk)
            return tv
        if k == "bool":
            return BOOL
        if k == "unit":
            return T("unit")
        if k == "unreachable":
            return TVar(where=w)  # diverges: any type
        if k == "chronoconst":
            return T("ext", CHRONO_CONSTS[e.path][0])
        if k == "arraylit":
            tv = TVar(where=w)
            for x in e.elems:
                unify(self.expr(x, env), tv, self.w(x))
            return T("elems", tv)
        if k == "call" and self.fi.modelled and len(e.path) == 1 and e.path[0] in FN_HOLES and e.path[0] not in env:
            # a function of /repo that is not translated: the FUNCTION is a parameter of the definition
            rel, ps, rty = FN_HOLES[e.path[0]]
            if rel != self.fi.fname or e.path[0] not in self.fi.local_fns:
                fail(w, f"`{e.path[0]}` is read as the function of {rel}, which has to define it and to be the calling file")
            if len(ps) != len(e.args):
                fail(w, f"{e.path[0]}: {len(ps)} arguments expected")
            for a, pt in zip(e.args, ps):
                unify(self.expr(a, env), self.chrono_type(pt), self.w(a))
            e.fn_hole = e.path[0]
            if e.path[0] not in self.fi.fn_holes:
                self.fi.fn_holes.append(e.path[0])
            return self.chrono_type(rty)
        if k == "closure":
            fail(w, "a closure here is outside the translated subset")
        if k == "pvariant":
            decl = dict(self.fi.penums[e.enum])
            if e.name not in decl or len(decl[e.name]) != len(e.args):
                fail(w, f"`{e.enum}::{e.name}`: not a variant with {len(e.args)} fields")
            for a, pt in zip(e.args, decl[e.name]):
                unify(self.expr(a, env), pt, self.w(a))
            return T("penum", e.enum)
        if k == "var" and e.name not in env and self.fi.modelled and e.name in CRATE_CONSTS:
            mod = CRATE_CONSTS[e.name][0]
            if (mod, e.name) not in self.fi.imports:
                fail(w, f"`{e.name}` is read as `{mod}::{e.name}`, but the file does not import it from there")
            return T("crateconst", e.name)
        if k == "var":
            if e.name not in env:
                fail(w, f"unknown variable `{e.name}` (constants and statics are outside the translated subset)")
            return env[e.name]
        if k == "self":
            if "self" not in env:
                fail(w, "`self` in a function without a self parameter")
            return env["self"]
        if k == "paren":
            return self.expr(e.e, env)
        if k == "field":
            t = strip_ref(self.expr(e.e, env))
            if not isinstance(t, TVar) and t[0] == "range" and e.name in ("start", "end"):
                return t[1]  # the two public fields of std::ops::Range
            if not isinstance(t, TVar) and t[0] == "opaque":
                if (t[1], e.name) not in OPAQUE_FIELDS:
                    fail(w, f"field `{e.name}` of the opaque type {t[1]} is outside the translated subset")
                return parse_type_str(OPAQUE_FIELDS[(t[1], e.name)], self.structs, self.enums)
            if isinstance(t, TVar) or t[0] != "struct":
                fail(w, f"field access on {show(t)}")
            for fn, ft in self.structs[t[1]]:
                if fn == e.name:
                    e.struct = t[1]
                    return ft
            fail(w, f"struct {t[1]} has no field {e.name}")
        if k == "index" and strip_paren(e.idx).kind == "rangefrom":
            # [iteration extension] `a[i..]` on an array that is a field: the slice of the elements from `i` on
            t = prune(self.expr(e.e, env))
            if isinstance(t, TVar) or t[0] != "array" or e.e.kind != "field":
                fail(w, f"slicing of {show(t)} is outside the translated subset (an array `[T; N]` that is a field only)")
            r = strip_paren(e.idx)
            unify(self.expr(r.l, env), tint("usize"), self.w(r))
            e.slice_from = r.l
            return T("slice", t[1])
        if k == "tuple":
            return T("tuple", *[self.expr(x, env) for x in e.items])
        if k == "rangefrom":
            # `(a..)`: only `.zip(..)` can be called on it (see `iter_method`); nothing else accepts this type
            t = self.expr(e.l, env)
            self.need_int(t, e, "`..`")
            return T("rangefrom", t)
        if k == "closure":
            fail(w, "a closure outside the argument of `find_map` / `map` is outside the translated subset")
        if k == "iflet":
            t = prune(self.expr(e.e, env))
            inner = TVar(where=w)
            unify(t, T("opt", inner), w)
            env2 = dict(env)
            env2[e.name] = inner
            env2[("mut", e.name)] = False
            ta = self.block(e.a, env2)
            tb = self.block(e.b, env)
            unify(ta, tb, w)
            return ta
        if k == "index":
            t = prune(self.expr(e.e, env))
            if isinstance(t, TVar) or t[0] != "array":
                fail(w, f"indexing of {show(t)} is outside the translated subset (arrays `[T; N]` only)")
            if e.e.kind != "field":
                fail(w, "only an array that is a field is indexed in the translated subset")
            unify(self.expr(e.idx, env), tint("usize"), self.w(e.idx))
            return t[1]
        if k == "deref":
            t = prune(self.expr(e.e, env))
            if isinstance(t, TVar):
                fail(w, "`*`: the operand's type must be known here")
            if t[0] == "ref":
                e.deref_kind = "ref"  # `*` of a reference: the referent
                return t[1]
            if t[0] == "struct" and t[1] in self.derefs:
                e.deref_kind = "newtype"  # `impl Deref for T` returning `&self.0`
                e.struct = t[1]
                return self.structs[t[1]][0][1]
            fail(w, f"`*` on {show(t)}: neither a reference nor a struct with `impl Deref` returning `&self.0`")
        if k == "bin":
            lt = self.expr(e.l, env)
            rt = self.expr(e.r, env)
            op = e.op
            if op in ("&&", "||"):
                unify(lt, BOOL, w)
                unify(rt, BOOL, w)
                return BOOL
            if op in ("==", "!=", "<", "<=", ">", ">="):
                unify(lt, rt, w)

                def chk(lt=lt):
                    tt = strip_ref(lt)
                    if isinstance(tt, TVar) and tt.lit:
                        return
                    if not isinstance(tt, TVar) and tt[0] == "tparam" and op not in ("==", "!="):
                        self.need_ord(tt, w, f"`{op}`")
                        return
                    if not isinstance(tt, TVar) and tt[0] == "struct" and op not in ("==", "!="):
                        self.need_derived(tt, w, f"`{op}`", "PartialOrd")
                        return
                    if not isinstance(tt, TVar) and tt[0] == "ext" and (op in ("==", "!=") or tt[1] == "NaiveDate"):
                        return  # chrono: `Weekday: Eq`; `NaiveDate: Ord` is the chronological order = the order of day numbers
                    if not isinstance(tt, TVar) and tt[0] == "enum" and op in ("==", "!="):
                        return  # a fieldless enum deriving PartialEq
                    if isinstance(tt, TVar) or tt[0] not in ("int", "bool") or (tt[0] == "bool" and op not in ("==", "!=")):
                        fail(w, f"`{op}` on {show(tt)} is outside the translated subset")
                self.deferred.append(chk)
                return BOOL
            if op in ("<<", ">>"):
                self.need_int(lt, e, f"`{op}`")
                self.need_int(rt, e, f"`{op}`")
                return lt
            unify(lt, rt, w)
            self.need_int(lt, e, f"`{op}`")
            return lt
        if k == "neg":
            t = self.expr(e.e, env)
            self.need_int(t, e, "unary `-`")
            return t
        if k == "not":
            t = self.expr(e.e, env)
            unify(t, BOOL, w)  # bitwise `!` on integers is outside the subset
            return BOOL
        if k == "cast":
            t = self.expr(e.e, env)

            def chk(t=t):
                tt = prune(t)
                if isinstance(tt, TVar) and tt.lit:
                    return
                if not isinstance(tt, TVar) and tt[0] == "enum":
                    e.from_enum = tt[1]  # the discriminant, then an integer cast
                    return
                if isinstance(tt, TVar) or tt[0] != "int":
                    fail(w, f"`as` from {show(tt)} is outside the translated subset")
                to = prune(e.to)
                if isinstance(to, TVar) or to[0] != "int":
                    fail(w, "`as _`: the target type cannot be determined / is not an integer type")
            self.deferred.append(chk)
            return e.to
        if k == "ref":
            return T("ref", self.expr(e.e, env))
        if k == "range":
            lt = self.expr(e.l, env)
            unify(lt, self.expr(e.r, env), w)
            return T("rangeincl" if e.incl else "range", lt)
        if k == "none":
            return T("res" if getattr(e, "result", False) else "opt", TVar(where=w))
        if k == "some":
            return T("res" if getattr(e, "result", False) else "opt", self.expr(e.e, env))
        if k == "variant":
            name = e.enum
            if name == "Self":
                st = self.fi.self_t
                if st is None or st[0] not in ("enum", "struct"):
                    fail(w, f"`Self::{e.name}`: `Self` is not a translated enum or struct")
                name = st[1]
            if name in self.structs:
                callee = self.fns.get((name, e.name))
                if callee is None or not getattr(callee, "is_const", False):
                    fail(w, f"`{e.enum}::{e.name}` is not a translated associated constant")
                e.kind = "constref"
                return self.call(e, callee, [], env)
            if name not in self.enums or e.name not in dict(self.enums[name]):
                fail(w, f"`{e.enum}::{e.name}` is not a variant of a translated enum (constants are outside the translated subset)")
            e.enum_name = name
            return T("enum", name)
        if k == "blockexpr":
            return self.block(e.b, env)
        if k == "return":
            unify(self.expr(e.e, env), self.ret, w)
            return TVar(where=w)  # diverges: any type
        if k == "errclosure":
            fail(w, "a closure outside `map_err(|_| NAME)`")
        if k == "thunk":
            fail(w, "a closure outside `or_else(|| expr)`")
        if k == "match":
            ts = self.expr(e.scrut, env)
            res = TVar(where=w)
            dup = getattr(e, "stmt_level", False) or contains_return(e.arms)
            for pat, body in e.arms:
                aenv = env
                if pat.kind == "lit":
                    unify(self.expr(pat, env), ts, self.w(pat))
                elif pat.kind == "variant":
                    unify(self.expr(pat, env), ts, self.w(pat))
                elif pat.kind == "pvariant":
                    unify(T("penum", pat.enum), strip_ref(ts), self.w(pat))
                    decl = dict(self.fi.penums[pat.enum])
                    if pat.name not in decl or len(decl[pat.name]) != len(pat.binds):
                        fail(self.w(pat), f"`{pat.enum}::{pat.name}`: not a variant with {len(pat.binds)} fields")
                    aenv = dict(env)
                    if dup:
                        self.no_shadow(pat.binds, env, pat)
                    for bn, bt in zip(pat.binds, decl[pat.name]):
                        aenv[bn] = bt
                        aenv[("mut", bn)] = False
                        aenv[("id", bn)] = object()
                elif pat.kind in ("svariant", "orpat"):
                    # [dated extension] struct-variant patterns; the alternatives of an or-pattern bind the same names at
                    # the same types; a guard sees the bindings and has to be a `bool`
                    unify(T("penum", pat.enum), strip_ref(ts), self.w(pat))
                    binds = self.dated_pattern_binds(pat)
                    aenv = dict(env)
                    if dup or getattr(pat, "guard", None) is not None:
                        self.no_shadow([bn for bn, _ in binds], env, pat)
                    for bn, bt in binds:
                        aenv[bn] = bt
                        aenv[("mut", bn)] = False
                        aenv[("id", bn)] = object()
                    if getattr(pat, "guard", None) is not None:
                        if contains_return(pat.guard):
                            fail(self.w(pat), "`?` / `return` inside a match guard")
                        unify(self.expr(pat.guard, aenv), BOOL, self.w(pat.guard))
                elif pat.kind == "bindall":
                    aenv = dict(env)
                    if dup:
                        self.no_shadow([pat.name], env, pat)
                    aenv[pat.name] = ts
                    aenv[("mut", pat.name)] = False
                    aenv[("id", pat.name)] = object()
                if dup:
                    self.no_shadow(bound_names(body), aenv, body)
                tb = self.block(body, aenv)
                unify(tb, res, self.w(body))

            def chk(ts=ts):
                tt = prune(ts)
                pats = [p for p, _ in e.arms]
                if isinstance(tt, TVar) and tt.lit:
                    tt = tint("i32")
                tt = strip_ref(tt)
                if isinstance(tt, TVar) or tt[0] not in ("int", "enum", "penum"):
                    fail(w, f"`match` on {show(tt)} is outside the translated subset")
                if tt[0] == "penum" and any(p.kind in ("svariant", "orpat") for p in pats):
                    # [dated extension] coverage and redundancy are left to Lean (both are errors there, as in Rust);
                    # the scrutinee is matched again after a failed guard, so it has to be a plain variable
                    if any(p.kind not in ("svariant", "orpat", "wild") for p in pats):
                        fail(w, "a pattern of another kind next to struct-variant patterns")
                    if strip_paren(e.scrut).kind != "var":
                        fail(w, "a `match` with struct-variant patterns on something else than a variable is outside the translated subset")
                    return
                if tt[0] == "penum":
                    names = [p.name for p in pats if p.kind == "pvariant"]
                    if len(set(names)) != len(names) or any(p.kind not in ("pvariant", "wild") for p in pats):
                        fail(w, "the same variant in two arms / a pattern of another kind")
                    if pats[-1].kind != "wild" and set(names) != {v for v, _ in self.fi.penums[tt[1]]}:
                        fail(w, "the arms do not cover the enum")
                elif tt[0] == "int":
                    if pats[-1].kind not in ("wild", "bindall"):
                        fail(w, "a `match` on an integer needs a final `_` arm in the translated subset")
                    vals = [p.value for p in pats[:-1]]
                    if len(set(vals)) != len(vals):
                        fail(w, "the same literal in two arms")
                else:
                    names = [p.name for p in pats if p.kind == "variant"]
                    if len(set(names)) != len(names):
                        fail(w, "the same variant in two arms")
                    if pats[-1].kind != "wild" and set(names) != {v for v, _ in self.enums[tt[1]]}:
                        fail(w, "the arms do not cover the enum")
            self.deferred.append(chk)
            return res
        if k == "structlit":
            name = self.fi.self_ty if e.name == "Self" else e.name
            if name is None or name not in self.structs:
                fail(w, f"unknown struct {e.name}")
            e.struct = name
            decl = self.structs[name]
            if [f for f, _ in e.fields] != [f for f, _ in decl]:
                if sorted(f for f, _ in e.fields) != sorted(f for f, _ in decl):
                    fail(w, f"struct literal of {name}: fields do not match the declaration")
            for fn, fe in e.fields:
                ft = dict(decl)[fn]
                unify(self.expr(fe, env), ft, self.w(fe))
            return T("struct", name)
        if k == "if":
            unify(self.expr(e.c, env), BOOL, self.w(e.c))
            if getattr(e, "stmt_level", False) or contains_return(e.a) or contains_return(e.b):
                self.no_shadow(bound_names(e.a) + bound_names(e.b), env, e)
            ta = self.block(e.a, env)
            tb = self.block(e.b, env)
            unify(ta, tb, w)
            return ta
        if k == "try":
            t = prune(self.expr(e.e, env))
            if isinstance(t, TVar) or t[0] not in ("opt", "res"):
                fail(w, f"`?` on {show(t)} (only `?` on an Option / a Result is translated)")
            r = prune(self.ret)
            if isinstance(r, TVar) and getattr(self, "in_closure", 0):
                unify(r, T(t[0], TVar(where=w)), w)  # the closure's result type is being inferred
                r = prune(self.ret)
            if r[0] != t[0]:
                fail(w, f"`?` on {show(t)} in a function that returns {show(r)}")
            return t[1]
        if k == "call":
            path = "::".join(e.path)
            if self.fi.modelled and path in CHRONO_CALLS:
                ps, rty, lean = CHRONO_CALLS[path]
                if ("chrono", e.path[0]) not in self.fi.imports:
                    fail(w, f"`{e.path[0]}` is read as `chrono::{e.path[0]}`, but the file does not import it from there")
                if len(ps) != len(e.args):
                    fail(w, f"{path}: {len(ps)} arguments expected")
                for a, p in zip(e.args, ps):
                    unify(self.expr(a, env), self.chrono_type(p), self.w(a))
                e.chrono = lean
                return self.chrono_type(rty)
            if len(e.path) == 1 and e.path[0] in env and isinstance(prune(env[e.path[0]]), tuple) and prune(env[e.path[0]])[0] == "fnonce" \
                    and getattr(e, "alias", None) is None:
                # [dated extension] the call of a parameter `impl FnOnce(..) -> ..`
                ft = prune(env[e.path[0]])
                if len(ft) - 2 != len(e.args):
                    fail(w, f"{path}: {len(ft) - 2} arguments expected")
                if getattr(self, "in_closure", 0):
                    fail(w, "the call of an `impl FnOnce` parameter inside a closure is outside the translated subset")
                for a, pt in zip(e.args, ft[2:]):
                    unify(self.expr(a, env), pt, self.w(a))
                e.fnparam = e.path[0]
                return ft[1]
            if len(e.path) == 1 and e.path[0] in env and isinstance(env[e.path[0]], tuple) and env[e.path[0]][0] == "closure":
                c = env[e.path[0]][1]
                if len(c.params) != len(e.args):
                    fail(w, f"{path}: {len(c.params)} arguments expected")
                for n, ident in c.free.items():
                    if env.get(("id", n)) is not ident:
                        fail(w, f"the closure `{path}` reads `{n}`, which has been rebound since the closure was made: outside the translated subset")
                for a, (pn, pt) in zip(e.args, c.params):
                    unify(self.expr(a, env), self.conc(pt), self.w(a))
                e.closure = c
                return c.ret
            if path in EXTERNS:
                ps = EXTERNS[path][0]
                if len(ps) != len(e.args):
                    fail(w, f"{path}: {len(ps)} arguments expected")
                for a, p in zip(e.args, ps):
                    unify(self.expr(a, env), tint(p), self.w(a))
                e.extern = path
                return T("externret", path)
            if len(e.path) == 2 and e.path[0] in INT_TYPES and e.path[1] == "from":
                if len(e.args) != 1:
                    fail(w, "from takes one argument")
                t = self.expr(e.args[0], env)
                to = e.path[0]
                e.conv = to
                self.lossless(t, tint(to), e)
                return tint(to)
            if len(e.path) == 2 and e.path[0] in INT_TYPES and e.path[1] == "try_from":
                # [iteration extension] `T::try_from(e)` is `e.try_into()` towards `T`
                if len(e.args) != 1:
                    fail(w, "try_from takes one argument")
                t = self.expr(e.args[0], env)
                self.need_int(t, e, "try_from()")
                e.tryfrom = e.path[0]
                return T("res", tint(e.path[0]))
            if (len(e.path) == 1 and e.path[0] in ("max", "min") and e.path[0] in self.fi.uses) or \
                    (e.path in (["std", "cmp", "max"], ["std", "cmp", "min"])):
                # std::cmp::max / min on a type with a total order (`Ord`)
                if len(e.args) != 2:
                    fail(w, f"{path} takes two arguments")
                ta = self.expr(e.args[0], env)
                unify(ta, self.expr(e.args[1], env), w)
                e.cmpfn = "cmpMax" if e.path[-1] == "max" else "cmpMin"

                def chk(ta=ta):
                    tt = prune(ta)
                    if isinstance(tt, TVar) and tt.lit:
                        return
                    if not isinstance(tt, TVar) and tt[0] == "tparam":
                        self.need_ord(tt, w, path, total=True)
                        return
                    if not isinstance(tt, TVar) and tt[0] == "struct":
                        self.need_derived(tt, w, path, "Ord")
                        return
                    if isinstance(tt, TVar) or tt[0] != "int":
                        fail(w, f"`{path}` on {show(tt)} is outside the translated subset")
                self.deferred.append(chk)
                return ta
            if len(e.path) == 2 and e.path[0] in ("Self", self.fi.self_ty):
                key = (self.fi.self_ty, e.path[1])
            elif len(e.path) == 2 and (e.path[0] in self.structs or e.path[0] in self.enums) and (e.path[0], e.path[1]) in self.fns:
                key = (e.path[0], e.path[1])  # `Type::f(..)` of a translated type
            elif len(e.path) == 1:
                key = (None, e.path[0])
                if key in self.fns and self.fns[key].fname != self.fi.fname and \
                        (MODULE_OF.get(self.fns[key].fname), e.path[0]) not in self.fi.imports and not self.dated_import_ok(e, self.fns[key]):
                    fail(w, f"`{path}` is read as the translated function of {self.fns[key].fname}, but the file does not import it from there")
                if key in self.fns and getattr(e, "alias", None) is not None and not self.dated_import_ok(e, self.fns[key]):
                    fail(w, f"`{e.alias}::{path}`: the translated function of that name is not the one of the module `{e.alias}` stands for")  # [dated extension]
            else:
                key = None
            if key not in self.fns:
                fail(w, f"call of `{path}`, which is not a translated function")
            callee = self.fns[key]
            if callee.node.has_self:
                fail(w, f"`{path}` takes self: call it as a method")
            rt_ = self.call(e, callee, e.args, env)
            if self.fi.modelled and not callee.modelled and isinstance(prune(rt_), tuple) and prune(rt_)[0] == "externret" \
                    and prune(rt_)[1] in CHRONO_CALLS:
                # [dated extension] a translated function that is NOT in chrono mode returns the ARGUMENTS of the library
                # call that ends it (`easter`: those of `NaiveDate::from_ymd_opt`); here the call has its chrono meaning
                e.extern_to_chrono = CHRONO_CALLS[prune(rt_)[1]][2]
                e.extern_arity = len(CHRONO_CALLS[prune(rt_)[1]][0])
                return self.chrono_type(CHRONO_CALLS[prune(rt_)[1]][1])
            return rt_
        if k == "method":
            name = e.name
            if name == "next" and self.fi.modelled:
                ch = self.dated_first_of_chain(e, env)  # [dated extension]
                if ch is not None:
                    return ch
            rt = strip_ref(self.expr(e.e, env))  # auto-deref of the receiver
            rp = rt
            if name == "map" and not isinstance(rp, TVar) and rp[0] == "opt" and len(e.args) == 1 and e.args[0].kind == "intofn":
                # [dated extension] `opt.map(Into::into)`: value-preserving by the type check
                tv = TVar(where=w)
                self.lossless(rp[1], tv, e)
                e.optmap_into = True
                return T("opt", tv)
            if name == "saturating_neg":
                # [dated extension]
                self.noargs(e)
                nm = self.int_of(rt, e, name)
                if nm is None or not nm.startswith("i"):
                    fail(w, "saturating_neg is only defined on signed types")
                return rt
            it = self.iter_method(e, rp, env)  # [iteration extension]
            if it is not None:
                return it
            if name == "try_into":
                self.noargs(e)
                self.need_int(rt, e, "try_into()")
                tv = TVar(where=w)

                def chk(tv=tv, rt=rt):
                    tt = prune(tv)
                    if not isinstance(tt, TVar) and tt[0] == "enum":
                        # `impl TryFrom<src> for Enum` has to be one of the translated functions
                        callee = self.fns.get((tt[1], "try_from"))
                        src = prune(rt)
                        if isinstance(src, TVar) and src.lit:
                            unify(src, tint("i32"), w)
                            src = prune(src)
                        if callee is None or callee.node.has_self or len(callee.node.params) != 1 or \
                                prune(callee.conc(callee.node.params[0][1])) != src:
                            fail(w, f"try_into() from {show(src)} to {tt[1]}: no translated `impl TryFrom<{show(src)}> for {tt[1]}`")
                        e.enum_callee = callee
                        self.fi.calls.append(callee.key)
                    elif isinstance(tt, TVar) or tt[0] != "int":
                        fail(w, f"try_into() towards {show(tt)} is outside the translated subset")
                self.deferred.append(chk)
                return T("res", tv)
            if name == "map_err":
                # the error value is not translated, so `map_err` changes nothing
                if len(e.args) != 1 or e.args[0].kind != "errclosure":
                    fail(w, "only `map_err(|_| NAME)` is translated")
                if isinstance(rp, TVar) or rp[0] != "res":
                    fail(w, f".map_err() on {show(rp)}")
                return rp
            if name == "into":
                self.noargs(e)
                tv = TVar(where=w)
                self.lossless(rt, tv, e)
                return tv
            if name == "ok":
                self.noargs(e)
                if isinstance(rp, TVar) or rp[0] != "res":
                    fail(w, f".ok() on {show(rp)}")
                return T("opt", rp[1])
            th = None if isinstance(rp, TVar) else type_head(rp)
            if not isinstance(rp, TVar) and rp[0] == "crateconst":
                _, meth, rty, lean = CRATE_CONSTS[rp[1]]
                if name != meth or e.args:
                    fail(w, f"`{rp[1]}.{name}(..)` is outside the translated subset")
                e.chrono = lean
                e.chrono_const = True
                return self.chrono_type(rty)
            if not isinstance(rp, TVar) and rp[0] == "ext":
                if (rp[1], name) not in CHRONO_METHODS:
                    fail(w, f"chrono's `{rp[1]}::{name}` has no meaning in lean/OH/Model/RustChrono.lean: outside the translated subset")
                return self.chrono_method(e, rp[1], name, env)
            if name == "and_then":
                # `opt.and_then(|x| e)`: `e` runs on `Some(x)` only
                if isinstance(rp, TVar) or rp[0] != "opt":
                    fail(w, f".and_then() on {show(rp)}")
                if len(e.args) != 1 or e.args[0].kind != "closure" or len(e.args[0].params) != 1:
                    fail(w, "only `and_then(|x| expr)` is translated")
                c = e.args[0]
                if contains_return(c.body):
                    fail(w, "`?` / `return` inside the closure of `and_then`")
                cenv = dict(env)
                pn, pt = c.params[0]
                if pt is not None:
                    unify(self.conc(pt), rp[1], w)
                cenv[pn] = rp[1]
                cenv[("mut", pn)] = False
                cenv[("id", pn)] = object()
                inner = TVar(where=w)
                unify(self.expr(c.body, cenv), T("opt", inner), w)
                c.ty = T("opt", inner)
                return T("opt", inner)
            if th is not None and (th, name) in GETTERS and (th, name) in HOLES and (th, name) not in self.fns and \
                    self.fi.fname in GETTER_FILES:
                # [iteration extension] a getter of a by-value parameter: one parameter of the definition for all its calls
                recv = strip_paren(e.e)
                self.noargs(e)
                if recv.kind != "var" or recv.name not in [pn for pn, _ in self.fi.node.params] or \
                        prune(env.get(recv.name)) != prune(self.conc(dict(self.fi.node.params)[recv.name])):
                    fail(w, f"the untranslated getter `.{name}()` on something else than a by-value parameter is outside the translated subset")
                e.hole = self.getter_hole(recv.name, name, e.line)
                return parse_type_str(HOLES[(th, name)], self.structs, self.enums)
            if th is not None and (th, name) in HOLES and (th, name) not in self.fns:
                # a call that is not translated: its result is a parameter of the definition
                for a in e.args:
                    ta = strip_ref(self.expr(a, env))
                    if a.kind != "var" or isinstance(ta, TVar) or ta[0] != "opaque":
                        fail(self.w(a), f"the arguments of the untranslated call `.{name}(..)` have to be parameters of an opaque type")
                ht = parse_type_str(HOLES[(th, name)], self.structs, self.enums)
                if ht[0] == "opaque":
                    e.hole = -1  # an opaque result: nothing to pass on, only further untranslated calls can use it
                    return ht
                self.fi.holes.append((name, e.line, ht))
                e.hole = len(self.fi.holes)
                return ht
            if name == "or_else" and len(e.args) == 1 and e.args[0].kind == "thunk" and Gen.has_return(None, e.args[0].e) \
                    and not isinstance(rp, TVar) and rp[0] == "opt":
                # [iteration extension] `?` / `return` inside the closure leave the CLOSURE, whose result type is the receiver's
                saved, self.ret = self.ret, rp
                th = e.args[0]
                t = self.expr(th.e, env)
                if not (th.e.kind == "blockexpr" and th.e.b.tail.kind == "return"):
                    unify(t, rp, w)
                self.ret = saved
                th.ty = rp
                e.closure_ret = True
                return rp
            if name in ("expect", "unwrap") and not isinstance(rp, TVar) and rp[0] == "externret":
                # [iteration extension] the payload of the library call: its arguments; whether it is `Some`: an oracle
                if name == "expect":
                    if len(e.args) != 1 or e.args[0].kind != "str":
                        fail(w, "expect takes a string literal")
                    e.msg = e.args[0].value
                else:
                    self.noargs(e)
                    e.msg = "called `Option::unwrap()` on a `None` value"
                if rp[1] not in ORACLES or strip_paren(e.e).kind != "call":
                    fail(w, f".{name}() on this value is outside the translated subset")
                e.oracle = rp[1]
                if not hasattr(self.fi, "oracles"):
                    self.fi.oracles = []
                if rp[1] not in self.fi.oracles:
                    self.fi.oracles.append(rp[1])
                return T("extval", rp[1])
            if name == "or_else":
                if isinstance(rp, TVar) or rp[0] != "opt":
                    fail(w, f".or_else() on {show(rp)}")
                if len(e.args) != 1 or e.args[0].kind != "thunk":
                    fail(w, "only `or_else(|| expr)` is translated")
                e.args[0].ty = rp
                unify(self.expr(e.args[0].e, env), rp, w)
                return rp
            if name == "saturating_sub":
                if len(e.args) != 1:
                    fail(w, "saturating_sub takes one argument")
                nm = self.int_of(rt, e, name)
                if nm is None or nm.startswith("i"):
                    fail(w, "saturating_sub is only translated on unsigned types")
                unify(self.expr(e.args[0], env), rt, w)
                return rt
            if name == "unwrap_or":
                if isinstance(rp, TVar) or rp[0] != "opt":
                    fail(w, f".unwrap_or() on {show(rp)}")
                if len(e.args) != 1:
                    fail(w, "unwrap_or takes one argument")
                unify(self.expr(e.args[0], env), rp[1], w)
                return rp[1]
            if name in ("expect", "unwrap"):
                if isinstance(rp, TVar) or rp[0] not in ("res", "opt"):
                    fail(w, f".{name}() on {show(rp)}")
                if name == "expect":
                    if len(e.args) != 1 or e.args[0].kind != "str":
                        fail(w, "expect takes a string literal")
                    e.msg = e.args[0].value
                else:
                    self.noargs(e)
                    e.msg = "called `unwrap()` on a `None`/`Err` value"
                return rp[1]
            if name in ("checked_add", "checked_sub", "checked_mul"):
                if len(e.args) != 1:
                    fail(w, f"{name} takes one argument")
                if self.int_of(rt, e, name) is None:
                    fail(w, f"{name} on an untyped literal")
                unify(self.expr(e.args[0], env), rt, w)
                return T("opt", rt)
            if name in ("trailing_zeros", "count_ones"):
                self.noargs(e)
                nm = self.int_of(rt, e, name)
                if nm is None or nm.startswith("i"):
                    fail(w, f"{name} is only translated on unsigned types")
                return tint("u32")
            if not isinstance(rp, TVar) and rp[0] == "rangeincl" and name in ("start", "end"):
                self.noargs(e)
                e.lib = name  # accessors of std::ops::RangeInclusive (references to the bounds)
                return T("ref", rp[1])
            if not isinstance(rp, TVar) and rp[0] in ("range", "rangeincl") and name == "contains":
                # RangeBounds::contains: `start <= x && x < end` / `start <= x && x <= end`
                if len(e.args) != 1:
                    fail(w, "contains takes one argument")
                unify(self.expr(e.args[0], env), T("ref", rp[1]), w)
                e.lib = "contains"
                elt = rp[1]

                def chk(elt=elt):
                    tt = strip_ref(elt)
                    if isinstance(tt, TVar) and tt.lit:
                        return
                    if not isinstance(tt, TVar) and tt[0] == "tparam":
                        self.need_ord(tt, w, "contains")
                        return
                    if isinstance(tt, TVar) or tt[0] != "int":
                        fail(w, f"`contains` on a range of {show(tt)} is outside the translated subset")
                self.deferred.append(chk)
                return BOOL
            if not isinstance(rp, TVar) and type_head(rp) is not None and (type_head(rp), name) in self.fns:
                callee = self.fns[(type_head(rp), name)]
                if not callee.node.has_self:
                    fail(w, f"`{name}` does not take self")
                if callee.node.mut_self:
                    e.root = self.place_root(e.e, env, f"call of the `&mut self` method {name}")
                    e.mutcall = True
                if callee.fname != self.fi.fname and callee.fname in MODULE_OF and callee.ns != callee.self_ty and \
                        (MODULE_OF[callee.fname], callee.ns) not in self.fi.imports:
                    fail(w, f"`.{name}()` is read as the method of the trait {callee.ns} of {callee.fname}, but the file does not import the trait from there")
                return self.call(e, callee, e.args, env, recv_t=rp)
            fail(w, f"method `.{name}()` on {show(rp)} is outside the translated subset")
        if k == "str":
            fail(w, "string literal outside `expect(..)`")
        fail(w, f"expression kind {k}")

    def need_derived(self, t, w, what, trait):
        """comparison of two values of a struct: the struct has to derive the trait (lexicographic order of its
        integer fields, in declaration order)"""
        if trait not in self.fi.derives.get(t[1], ()) or any(ft[0] != "int" for _, ft in self.structs[t[1]]):
            fail(w, f"{what} on {t[1]}, which does not `#[derive({trait})]` over integer fields")
        self.fi.ordered_structs.add(t[1])

    def need_ord(self, t, w, what, total=False):
        """a generic parameter used with `<`, `<=`, .. needs `PartialOrd`; with max/min it needs `Ord`"""
        bounds = self.fi.node.tparams.get(t[1], set())
        ok = ("Ord" in bounds) if total else bool(bounds & ORD_BOUNDS)
        if not ok:
            fail(w, f"{what} on the generic parameter {t[1]}, which is not bounded by {'Ord' if total else 'PartialOrd'}")

    def noargs(self, e):
        if e.args:
            fail(self.w(e), f".{e.name}() takes no argument")

    # [iteration extension] ----------------------------------------------------------------------
    # Iterator chains `SOURCE.iter() [.enumerate() | .copied() | .skip(n)]* [.map(f)]* .find_map(g) | .sum()`:
    # "iter" is a type of its own for the inference (`impl Iterator<Item = T>`); it only exists between the source and
    # the consumer (it cannot be bound, returned or passed on: `lty` has no Lean type for it).
    ITER_OPS = ("enumerate", "copied", "skip", "map", "find_map", "sum")

    def iter_method(self, e, rp, env):
        name, w = e.name, self.w(e)
        if isinstance(rp, TVar):
            return None
        if name == "iter" and rp[0] in ("array", "slice", "deque"):
            self.noargs(e)
            e.iterop = "iter"
            return T("iter", T("ref", rp[1]))
        if rp[0] == "opt" and name == "map":
            # `Option::map(f)`: `f` runs at most once
            if len(e.args) != 1:
                fail(w, "map takes one argument")
            e.optmap = True
            r = TVar(where=w)
            self.fn_arg(e.args[0], rp[1], r, env)
            return T("opt", r)
        if rp[0] == "deque" and name == "get":
            if len(e.args) != 1:
                fail(w, "get takes one argument")
            unify(self.expr(e.args[0], env), tint("usize"), self.w(e.args[0]))
            e.deque_get = True
            return T("opt", T("ref", rp[1]))
        if rp[0] == "rangefrom" and name == "zip":
            # `(a..).zip(iter)`: the counter is advanced BEFORE the other iterator is pulled (`Zip::next`)
            if len(e.args) != 1:
                fail(w, "zip takes one argument")
            ta = prune(self.expr(e.args[0], env))
            if isinstance(ta, TVar) or ta[0] != "iter" or getattr(strip_paren(e.args[0]), "after_map", False):
                fail(w, "`(a..).zip(x)`: `x` has to be an iterator chain without `map` in the translated subset")
            e.iterop = "zipfrom"
            e.after_map = True  # no `enumerate` / `skip` / `copied` after the zip
            return T("iter", T("tuple", rp[1], ta[1]))
        if rp[0] != "iter":
            return None
        if name not in self.ITER_OPS:
            fail(w, f"iterator method `.{name}()` is outside the translated subset")
        e.iterop = name
        elem = rp[1]
        if getattr(strip_paren(e.e), "after_map", False) and name in ("enumerate", "copied", "skip"):
            fail(w, f"`.{name}()` after `.map(..)` is outside the translated subset")
        if name == "enumerate":
            self.noargs(e)
            return T("iter", T("tuple", tint("usize"), elem))
        if name == "copied":
            self.noargs(e)
            pe = prune(elem)
            if isinstance(pe, TVar) or pe[0] != "ref":
                fail(w, f".copied() on an iterator over {show(pe)} (not references)")
            return T("iter", pe[1])
        if name == "skip":
            if len(e.args) != 1:
                fail(w, "skip takes one argument")
            unify(self.expr(e.args[0], env), tint("usize"), self.w(e.args[0]))
            return rp
        if name == "sum":
            return self.iter_sum(e, rp, env)
        if len(e.args) != 1:
            fail(w, f"{name} takes one argument")
        nholes = len(self.fi.holes)
        if name == "map":
            e.after_map = True
            r = T("iter", self.fn_arg(e.args[0], elem, TVar(where=w), env))
        else:  # find_map
            payload = TVar(where=w)
            self.fn_arg(e.args[0], elem, T("opt", payload), env)
            r = T("opt", payload)
        if len(self.fi.holes) != nholes:
            fail(w, "an untranslated call (HOLES) inside a closure that runs once per element is outside the translated subset")
        return r

    def getter_hole(self, param, getter, line):
        hn = f"@{param}.{getter}"
        for n, (x, _, _) in enumerate(self.fi.holes):
            if x == hn:
                return n + 1
        ptype = strip_ref(self.conc(dict(self.fi.node.params)[param]))[1]
        self.fi.holes.append((hn, line, parse_type_str(HOLES[(ptype, getter)], self.structs, self.enums)))
        return len(self.fi.holes)

    def iter_sum(self, e, rp, env):
        """`.sum()`: `impl Sum for <integer type>`; the type is the element type (no `Sum<&T>` here)"""
        self.noargs(e)
        self.need_int(rp[1], e, "sum()")
        return rp[1]

    def fn_arg(self, a, pt, rt, env):
        """the function passed to an adaptor: a closure `|pat| body` (it sees the variables in scope) or the path of a
        translated function `Type::f`; its parameter has type `pt`, the type of its result is unified with `rt`"""
        w = self.w(a)
        if a.kind == "variant":
            tyname = self.fi.self_ty if a.enum == "Self" else a.enum
            callee = self.fns.get((tyname, a.name))
            if callee is None or callee.is_const:
                fail(w, f"`{a.enum}::{a.name}` is not a translated function")
            f = callee.node
            if f.mut_self or callee.holes or any(b is not None for b in f.tparams.values()) or \
                    len(f.params) + (1 if f.has_self else 0) != 1:
                fail(w, f"`{a.enum}::{a.name}` as a function value: only a translated function of one argument (no `&mut self`, no generics, no untranslated calls)")
            want = callee.self_t if f.has_self else callee.conc(f.params[0][1])
            unify(strip_ref(pt), strip_ref(want), w)
            unify(callee.conc(f.ret), rt, w)
            a.fn_callee = callee
            self.fi.calls.append(callee.key)
            return rt
        if a.kind != "closure":
            fail(w, "only a closure `|x| ..` or the path of a translated function is translated as the argument of an adaptor")
        if a.pat is None:
            fail(w, "closures with several parameters or type annotations are outside the translated subset (as the argument of an adaptor)")
        env2 = dict(env)
        if isinstance(a.pat, list):
            tvs = [TVar(where=w) for _ in a.pat]
            unify(pt, T("tuple", *tvs), w)
            for nm, tv in zip(a.pat, tvs):
                env2[nm] = tv
                env2[("mut", nm)] = False
        else:
            env2[a.pat] = pt
            env2[("mut", a.pat)] = False
        for nm in (a.pat if isinstance(a.pat, list) else [a.pat]):
            if re.fullmatch(r"(tmp|ext)\d+", nm):
                fail(w, f"closure parameter name {nm} clashes with the translator's temporaries")
        # `?` / `return` inside the closure leave the CLOSURE: its result type takes the place of the function's
        rr = prune(rt)
        if isinstance(rr, TVar) and Gen.has_return(None, a.e):
            fail(w, "`?` / `return` inside a closure whose result type is not known to be an Option")
        saved, self.ret = self.ret, rt
        # no write to the enclosing function's state from inside a closure
        for key in list(env2):
            if isinstance(key, tuple) and key[0] == "mut":
                env2[key] = False
        a.in_mut_fn = self.fi.node.mut_self
        t = self.expr(a.e, env2)
        if not (a.e.kind == "blockexpr" and a.e.b.tail.kind == "return"):
            unify(t, rt, w)
        self.ret = saved
        a.ret_t = rt
        return rt
    # ---------------------------------------------------------------------------------------------

    def call(self, e, callee, args, env, recv_t=None):
        ps = callee.node.params
        if len(ps) != len(args):
            fail(self.w(e), f"{callee.lean_name}: {len(ps)} arguments expected")
        inst = {}
        for tp, b in callee.node.tparams.items():
            if b is None:
                continue
            # a generic parameter of the callee: instantiated by unification; the instance has to have the order the
            # bound asks for (an integer type, a struct deriving it, a parameter of the caller with the bound)
            tv = TVar(where=self.w(e))
            inst[tp] = tv

            def chk(tv=tv, b=b, tp=tp):
                tt = prune(tv)
                total = "Ord" in b
                if isinstance(tt, TVar):
                    if tt.lit:
                        return
                    fail(self.w(e), f"the type argument {tp} of {callee.lean_name} cannot be determined")
                if tt[0] == "int":
                    return
                if tt[0] == "tparam":
                    return self.need_ord(tt, self.w(e), callee.lean_name, total=total)
                if tt[0] == "struct":
                    return self.need_derived(tt, self.w(e), callee.lean_name, "Ord" if total else "PartialOrd")
                if tt[0] == "enum":
                    # a fieldless enum deriving the order: the order of the discriminants
                    tr = "Ord" if total else "PartialOrd"
                    if tr not in self.fi.derives.get(tt[1], ()):
                        fail(self.w(e), f"{callee.lean_name} instantiated at {tt[1]}, which does not `#[derive({tr})]`")
                    self.fi.ordered_structs.add(tt[1])
                    return
                fail(self.w(e), f"{callee.lean_name} instantiated at {show(tt)} is outside the translated subset")
            self.deferred.append(chk)
        if inst:
            base = callee.conc

            def subst(t):
                t = prune(t) if not isinstance(t, TVar) else t
                if isinstance(t, tuple) and t[0] == "tparam" and t[1] in inst:
                    return inst[t[1]]
                if isinstance(t, tuple) and t[0] in UNARY:
                    return (t[0], subst(t[1]))
                return t

            def conc(t):
                return subst(base(t))
            if recv_t is not None and callee.self_t is not None:
                unify(recv_t, subst(callee.self_t), self.w(e))  # the receiver fixes the parameters of a generic impl
            for a, (pn, pt) in zip(args, ps):
                unify(self.expr(a, env), conc(pt), self.w(a))
            e.callee = callee
            self.fi.calls.append(callee.key)
            return conc(callee.node.ret)
        if (callee.holes or any(strip_ref(callee.conc(pt))[0] == "opaque" for _, pt in ps)) and not getattr(callee, "oracles", None) \
                and not callee.node.mut_self:
            # [iteration extension] hole propagation: the opaque arguments have to be plain variables (parameters) of the
            # same opaque type; every untranslated call of the callee becomes a hole of the caller at this call site
            for a, (pn, pt) in zip(args, ps):
                ta = self.expr(a, env)
                if strip_ref(callee.conc(pt))[0] == "opaque":
                    if strip_paren(a).kind != "var" or isinstance(strip_ref(ta), TVar) or strip_ref(ta) != strip_ref(callee.conc(pt)):
                        fail(self.w(a), f"an argument of opaque type of {callee.lean_name} has to be a parameter of that type")
                else:
                    unify(ta, callee.conc(pt), self.w(a))
            e.hole_args = []
            argvar = {pn: strip_paren(a).name for a, (pn, pt) in zip(args, ps) if strip_ref(callee.conc(pt))[0] == "opaque"}
            for hn, hl, ht in callee.holes:
                if hn.startswith("@"):
                    cp, getter = hn[1:].split(".")
                    av = argvar[cp]
                    if av not in [pn for pn, _ in self.fi.node.params] or self.fi.fname not in GETTER_FILES:
                        fail(self.w(e), f"the argument `{av}` of {callee.lean_name} has to be a parameter of the calling function")
                    e.hole_args.append(self.getter_hole(av, getter, e.line))
                    continue
                self.fi.holes.append((f"{hn}(..)` inside `{callee.node.name}", e.line, ht))
                e.hole_args.append(len(self.fi.holes))
            e.callee = callee
            self.fi.calls.append(callee.key)
            return callee.conc(callee.node.ret)
        if callee.holes or any(strip_ref(callee.conc(pt))[0] == "opaque" for _, pt in ps):
            fail(self.w(e), f"call of {callee.lean_name}, which has opaque parameters / untranslated calls, is outside the translated subset")
        conc = callee.conc
        for a, (pn, pt) in zip(args, ps):
            unify(self.expr(a, env), conc(pt), self.w(a))
        e.callee = callee
        self.fi.calls.append(callee.key)
        return conc(callee.node.ret)

    def lossless(self, src, dst, node):
        """`T::from(e)` / `e.into()`: the standard library only has the value-preserving ones"""
        def chk():
            s, d = prune(src), prune(dst)
            if isinstance(d, TVar):
                fail(self.w(node), "the target type of this conversion cannot be determined")
            if isinstance(s, TVar) and s.lit:
                unify(s, tint("i32"), self.w(node))
                s = prune(s)
            if not isinstance(s, TVar) and s[0] == "enum" and d[0] == "int" and self.fi.modelled and node.kind == "method":
                # [dated extension] `impl From<Enum> for T { fn from(val: Enum) -> Self { val as _ } }` generated by the
                # macro of DATED_ENUM_INTO (shape checked literally by `translate`): the discriminant, cast to `T`
                if not DATED_ENUM_INTO_OK.get((s[1], d[1])):
                    fail(self.w(node), f"conversion {show(s)} -> {show(d)}: no macro-generated `impl From<{s[1]}> for {d[1]}` of the expected shape")
                node.into_from_enum = (s[1], d[1])
                return
            if isinstance(s, TVar) or s[0] != "int" or d[0] != "int":
                fail(self.w(node), f"conversion {show(s)} -> {show(d)} is outside the translated subset")
            (slo, shi), (dlo, dhi) = INT_TYPES[s[1]], INT_TYPES[d[1]]
            if "size" in s[1] + d[1] and s[1] != d[1]:
                fail(self.w(node), f"no `From<{s[1]}> for {d[1]}` in the standard library")
            if not (dlo <= slo and shi <= dhi):
                fail(self.w(node), f"no `From<{s[1]}> for {d[1]}` in the standard library (not value-preserving)")
        self.deferred.append(chk)

    # [dated extension] ---------------------------------------------------------------------------
    def dated_pattern_binds(self, pat):
        """[(name, type)] bound by a struct-variant pattern / an or-pattern of them (the same in every alternative)"""
        if pat.kind == "orpat":
            all_ = [self.dated_pattern_binds(a) for a in pat.alts]
            if any(a.enum != pat.enum for a in pat.alts):
                fail(self.w(pat), "an or-pattern over two enums")
            for b in all_[1:]:
                if sorted(n for n, _ in b) != sorted(n for n, _ in all_[0]):
                    fail(self.w(pat), "the alternatives of an or-pattern do not bind the same names")
                for n, t in b:
                    if prune(dict(all_[0])[n]) != prune(t):
                        fail(self.w(pat), f"the alternatives of an or-pattern bind `{n}` at different types")
            return all_[0]
        decl = dict(self.fi.penums.get(pat.enum, []))
        fnames = DATED_PENUM_FIELDS.get((pat.enum, pat.name))
        if pat.name not in decl or fnames is None:
            fail(self.w(pat), f"`{pat.enum}::{pat.name}` is not a struct variant of a translated enum")
        tys = dict(zip(fnames, decl[pat.name]))
        seen, out = set(), []
        for fn, sub in pat.fields:
            if fn not in tys or fn in seen:
                fail(self.w(pat), f"`{pat.enum}::{pat.name}` has no field `{fn}` / the field is matched twice")
            seen.add(fn)
            ft = tys[fn]
            if sub[0] == "bind":
                out.append((fn, ft))
            elif ft[0] != "opt":
                fail(self.w(pat), f"`{fn}: None` / `{fn}: Some(..)` on a field of type {show(ft)}")
            elif sub[0] == "some":
                out.append((sub[1], ft[1]))
        if not pat.rest and seen != set(fnames):
            fail(self.w(pat), f"the pattern of `{pat.enum}::{pat.name}` does not mention every field (and has no `..`)")
        if len({n for n, _ in out}) != len(out):
            fail(self.w(pat), "a name is bound twice in this pattern")
        return out

    def dated_first_of_chain(self, e, env):
        """`OPT.into_iter().chain((LO..HI).rev().filter_map(|x| BODY)).next()`, exactly this shape; None if the
        receiver of `.next()` is not a `.chain(..)` at all"""
        w = self.w(e)
        c = strip_paren(e.e)
        if e.args or c.kind != "method" or c.name != "chain":
            return None
        src = strip_paren(c.e)
        if len(c.args) != 1 or src.kind != "method" or src.name != "into_iter" or src.args:
            fail(w, "only `OPTION.into_iter().chain((a..b).rev().filter_map(|x| ..)).next()` is translated")
        fm = strip_paren(c.args[0])
        rv = strip_paren(fm.e) if fm.kind == "method" else None
        rg = strip_paren(rv.e) if rv is not None and rv.kind == "method" else None
        if fm.kind != "method" or fm.name != "filter_map" or len(fm.args) != 1 or rv.kind != "method" or rv.name != "rev" or rv.args \
                or rg.kind != "range" or rg.incl or strip_paren(fm.args[0]).kind != "closure":
            fail(w, "only `OPTION.into_iter().chain((a..b).rev().filter_map(|x| ..)).next()` is translated")
        to = prune(self.expr(src.e, env))
        if isinstance(to, TVar) or to[0] != "opt":
            fail(w, f"`.into_iter().chain(..).next()` on {show(to)} (only on an Option)")
        lt = self.expr(rg.l, env)
        unify(lt, self.expr(rg.r, env), self.w(rg))
        self.need_int(lt, rg, "`(a..b).rev()`")
        nholes = len(self.fi.holes)
        self.fn_arg(strip_paren(fm.args[0]), lt, T("opt", to[1]), env)
        if len(self.fi.holes) != nholes:
            fail(w, "an untranslated call (HOLES) inside a closure that runs once per element is outside the translated subset")
        e.dated_chain = (src.e, rg, strip_paren(fm.args[0]))
        return T("opt", to[1])

    def dated_import_ok(self, e, callee):
        """a free function of another file: `ALIAS::f(..)` with ALIAS the `use .. as ALIAS` of that file's module, or
        `f(..)` imported by name from that file's module"""
        mod = DATED_MODULE_OF.get(callee.fname)
        if mod is None or not self.fi.modelled:
            return False
        alias = getattr(e, "alias", None)
        if alias is not None:
            return ALIASES.get(self.fi.fname, {}).get(alias) == mod
        return (mod, e.path[0]) in self.fi.imports
    # ---------------------------------------------------------------------------------------------


# ------------------------------------------------------------------------------------------------
# Lean output

def lname(n):
    return f"«{n}»" if n in LEAN_KEYWORDS else n


def lty(t):
    t = prune(t)
    if t[0] == "elems":
        inner = lty(t[1])
        return f"List {inner if ' ' not in inner else '(' + inner + ')'}"
    if t[0] == "int":
        return "Int"
    if t[0] == "bool":
        return "Bool"
    if t[0] == "struct":
        return t[1]
    if t[0] == "ref":
        return lty(t[1])  # a shared reference to a value is the value
    if t[0] == "tuple":  # [iteration extension]
        parts = [lty(x) for x in t[1:]]
        return " × ".join(p if " " not in p else f"({p})" for p in parts)
    if t[0] == "deque":
        inner = lty(t[1])
        return f"List {inner if ' ' not in inner else '(' + inner + ')'}"
    if t[0] == "extval":
        return " × ".join("Int" for _ in EXTERNS[t[1]][0])
    if t[0] in ("iter", "slice", "rangefrom"):
        fail("(rs2lean)", f"a value of type {show(t)} cannot be bound, passed or returned in the translated subset")
    if t[0] in UNARY:
        inner = lty(t[1])
        head = {"opt": "Option", "res": "Option", "range": "Range", "rangeincl": "RangeInclusive"}[t[0]]
        return f"{head} {inner}" if " " not in inner else f"{head} ({inner})"
    if t[0] in ("tparam", "enum", "penum"):
        return t[1]
    if t[0] == "ext":
        return "Int"  # chrono's types as the values of the calendar model, see CHRONO_TYPES
    if t[0] == "unit":
        return "Unit"
    if t[0] == "array":
        inner = lty(t[1])
        return f"Vector {inner if ' ' not in inner else '(' + inner + ')'} {t[2]}"
    if t[0] == "externret":
        return " × ".join("Int" for _ in EXTERNS[t[1]][0])
    if t[0] == "fnonce":  # [dated extension] `impl FnOnce(A, ..) -> B`: it may panic, hence `R B`
        parts = [lty(x) for x in t[2:]] + ["R " + (lty(t[1]) if " " not in lty(t[1]) else "(" + lty(t[1]) + ")")]
        return " → ".join(p_ if " " not in p_ or p_.startswith("R ") else f"({p_})" for p_ in parts)
    raise AssertionError(t)


def field_name(f):
    return f"v{f}" if f.isdigit() else lname(f)


def lit(v):
    return str(v) if v >= 0 else f"({v})"


class Gen:
    """code generation in continuation-passing style: `cg(e, k)` is the Lean text (of type `R ρ`) that
    evaluates `e`, in Rust's evaluation order, and goes on with `k(term)`, `term` a pure Lean term for
    the value of `e`"""

    def __init__(self, fi, structs):
        self.fi, self.structs, self.tmp = fi, structs, 0
        self.ret_ty = None

    def fresh(self):
        self.tmp += 1
        return f"tmp{self.tmp}"

    def site(self, e):
        owner = (self.fi.self_ty + "::") if self.fi.self_ty else ""
        return f'"{owner}{self.fi.node.name}:{e.line}"'

    def tyname(self, t):
        t = strip_ref(t)  # the receiver of a method may be a reference (auto-deref)
        assert t[0] == "int", t
        return "." + t[1]

    def ind(self, depth):
        return "  " * depth

    def RET(self, depth):
        def k(term):
            return f"{self.ind(depth)}{self.ret_term(term)}"
        k.is_ret = True
        return k

    def PURE_RET(self, depth):
        """the value of a sub-computation that flows back into an enclosing expression (never the function's result)"""
        def k(term):
            return f"{self.ind(depth)}.ok {atom(term)}"
        return k

    def has_return(self, b):
        return contains_return(b)

    def deeper(self, k):
        """the continuation `k`, whose text was laid out for the enclosing block, one level deeper (inside a branch):
        Lean wants the right-hand side of a `match` alternative at or right of its `|`"""
        def k1(term):
            return "\n".join(("  " + ln) if ln else ln for ln in k(term).split("\n"))
        return k1

    in_closure = 0
    closed_base = 0  # the value of `closed` where the innermost local closure body starts

    def ret_term(self, term):
        """the function returns `term`; a `&mut self` method also returns the state it leaves in `self`"""
        if self.in_closure:
            return f".ok {atom(term)}"  # `?` inside a local closure leaves the closure
        if self.fi.node.mut_self:
            return f".ok ({term}, self)"
        return f".ok {atom(term)}"

    def gen_fn(self):
        f = self.fi.node
        params = []
        for tp in f.tparams:
            if f.tparams[tp] is None:
                continue  # only occurs inside opaque types
            # a generic parameter bounded by PartialOrd / Ord: an abstract carrier with decidable `≤` and `<`
            # (the trait's comparison operators); nothing else is known about it
            if tp in LEAN_KEYWORDS or not re.fullmatch(r"[A-Z][A-Za-z0-9]*", tp):
                fail(f"{self.fi.fname}:{f.line}", f"generic parameter name {tp}")
            params.append(f"{{{tp} : Type}} [LE {tp}] [LT {tp}] [DecidableLE {tp}] [DecidableLT {tp}]")
        if f.has_self and strip_ref(self.fi.self_t)[0] != "opaque":
            st = lty(self.fi.self_t)
            params.append(f"(self : {st})")
        for pn, pt in f.params:
            if re.fullmatch(r"(tmp|ext)\d+", pn):
                fail(f"{self.fi.fname}:{f.line}", f"parameter name {pn} clashes with the translator's temporaries")
            if strip_ref(self.conc(pt))[0] == "opaque":
                continue  # never looked into
            params.append(f"({lname(pn)} : {lty(self.conc(pt))})")
        for n, (hn, hl, ht) in enumerate(self.fi.holes):
            params.append(f"({hole_lean_names(self.fi.holes)[n]} : {lty(ht)})")
        for hn in sorted(self.fi.fn_holes):
            # an untranslated function of /repo (FN_HOLES): the function itself is a parameter
            _, ps, rty = FN_HOLES[hn]
            ct = Infer(self.fi, self.structs, set(), {}, {}).chrono_type
            params.append(f"(ext_{hn} : {' → '.join(lty(ct(x)) if ' ' not in lty(ct(x)) else '(' + lty(ct(x)) + ')' for x in ps + [rty])})")
        for o in getattr(self.fi, "oracles", []):  # [iteration extension]
            params.append(f"({ORACLES[o][0]} : {ORACLES[o][1]})")
        self.ret_ty = self.conc(f.ret)
        rt = lty(self.ret_ty)
        if f.mut_self:
            rt = f"{'(' + rt + ')' if ' ' in rt else rt} × {lty(self.fi.self_t)}"
        rt = f"({rt})" if " " in rt else rt
        head = f"def {lname(self.fi.lean_name)} {' '.join(params)} : R {rt} :=".replace("  ", " ")
        body = self.block(f.body, self.RET(1), 1)
        return head + "\n" + body

    def conc(self, t):
        return self.fi.conc(t)

    def none_result(self, depth):
        return f"{self.ind(depth)}.ok none"

    def block(self, b, k, depth):
        """statements then tail; k receives the tail value"""
        def go(i):
            if i == len(b.stmts):
                if b.tail.kind == "return":
                    return self.cg_root(b.tail.e, self.RET(depth), depth)
                return self.cg_root(b.tail, k, depth)
            s = b.stmts[i]
            if re.fullmatch(r"tmp\d+", getattr(s, "name", "")):
                fail(f"{self.fi.fname}:{s.line}", f"local name {s.name} clashes with the translator's temporaries")
            if s.kind == "let" and strip_paren(s.e).kind == "closure":
                return go(i + 1)  # a local closure: expanded where it is called
            if s.kind == "let":
                def k2(term, s=s):
                    return f"{self.ind(depth)}let {lname(s.name)} := {term}\n" + go(i + 1)
                return self.cg_root(s.e, k2, depth)
            if s.kind == "dassert":
                msg = ("assertion failed: " + s.text).replace("\\", "\\\\").replace('"', '\\"')

                def k2(term, s=s):
                    return (f"{self.ind(depth)}if {term} then\n" + go(i + 1) + "\n"
                            f"{self.ind(depth)}else .error (.panic \"{msg}\")")
                return self.cg(s.c, k2, depth)
            if s.kind == "exprstmt":
                return self.cg_root(s.e, lambda term: go(i + 1), depth)
            if s.kind == "assign":
                self.no_mutation_here(s)

                def k2(term, s=s):
                    root, new = self.place_update(s.place, term)
                    return f"{self.ind(depth)}let {lname(root)} := {new}\n" + go(i + 1)
                return self.cg(s.bin if s.bin is not None else s.e, k2, depth)
            if s.kind == "letsome":
                def k2(term, s=s):
                    return (f"{self.ind(depth)}match {term} with\n"
                            f"{self.ind(depth)}| none =>\n" + self.cg(s.orelse, self.RET(depth + 1), depth + 1) + "\n"
                            f"{self.ind(depth)}| some {lname(s.name)} =>\n" + go(i + 1))
                return self.cg(s.e, k2, depth)
            if s.kind == "lettuple":
                # [iteration extension] `let (a, b) = e;`
                def k2(term, s=s):
                    return self.bind_tuple(s.names, term, depth) + go(i + 1)
                return self.cg_root(s.e, k2, depth)
            if s.kind == "assert":
                v = lname(s.name)
                msg = f"assertion failed: {s.text}"
                return (f"{self.ind(depth)}if {lit(s.lo.value)} ≤ {v} ∧ {v} ≤ {lit(s.hi.value)} then\n" + go(i + 1) + "\n"
                        f"{self.ind(depth)}else .error (.panic \"{msg}\")")
            raise AssertionError(s.kind)
        return go(0)

    # mutation -------------------------------------------------------------------------------------
    # State is passed by rebinding: `let self := ..` / `let x := ..` shadows the previous value for the rest of the
    # straight line.  That is only right where the rest of the computation is textually below, so a write (an
    # assignment, the call of a `&mut self` method) is accepted only as a statement / at the root of a `let` or of a
    # tail expression, and not inside a branch or operand whose value flows back into an enclosing expression.
    closed = 0
    allow_mut = None

    def cg_root(self, e, k, depth):
        """`e` is the whole expression of a statement: the one place where a `&mut self` call may stand"""
        r = strip_paren(e)
        if getattr(r, "mutcall", False):
            self.allow_mut = r
        return self.cg(e, k, depth)

    def no_mutation_here(self, node):
        if self.closed:
            fail(f"{self.fi.fname}:{node.line}", "a write inside an `if` / `&&` / `||` whose value is used by an enclosing "
                 "expression is outside the translated subset")

    def place_update(self, p, new):
        """(root variable, its new value) after writing `new` to the place `p`"""
        if p.kind in ("self", "var"):
            return ("self" if p.kind == "self" else p.name), new
        base = self.pure(p.e)
        if base is None:
            fail(f"{self.fi.fname}:{p.line}", "this place expression is outside the translated subset")
        if p.kind == "field":
            return self.place_update(p.e, f"{{ {base} with {field_name(p.name)} := {new} }}")
        if p.kind == "index":
            return self.place_update(p.e, f"{atom(base)}.setIfInBounds {atom(p.idx_term)}.toNat {atom(new)}")
        raise AssertionError(p.kind)

    def cg_index(self, e, k, depth):
        """`base[idx]`: the index is evaluated, then checked against the array length (a panic outcome)"""
        I = self.ind(depth)
        base = self.pure(e.e)
        if base is None:
            fail(f"{self.fi.fname}:{e.line}", "only an array that is a field is indexed in the translated subset")

        def ki(i):
            e.idx_term = i
            v = self.fresh()
            return (f"{I}match {atom(base)}[{atom(i)}.toNat]? with\n{I}| none => .error (.panic \"index out of bounds\")\n"
                    f"{I}| some {v} =>\n" + k(v))
        return self.cg(e.idx, ki, depth)

    # pure terms -----------------------------------------------------------------------------------
    def pure(self, e):
        """Lean term for `e` if its evaluation has no outcome but a value, else None"""
        k = e.kind
        if k == "lit":
            return lit(e.value)
        if k == "bool":
            return "true" if e.value else "false"
        if k == "var":
            return lname(e.name)
        if k == "unit":
            return "()"
        if k == "chronoconst":
            return CHRONO_CONSTS[e.path][1]
        if k == "arraylit":
            parts = [self.pure(x) for x in e.elems]
            return None if any(x is None for x in parts) else "[" + ", ".join(parts) + "]"
        if k == "call" and getattr(e, "fn_hole", None):
            parts = [self.pure(x) for x in e.args]
            return None if any(x is None for x in parts) else " ".join([f"ext_{e.fn_hole}"] + [atom(x) for x in parts])
        if k == "method" and getattr(e, "chrono_const", False):
            return e.chrono
        if k in ("call", "method") and getattr(e, "chrono", None):
            parts = [self.pure(x) for x in ([e.e] if k == "method" else []) + list(e.args)]
            if any(x is None for x in parts):
                return None
            return " ".join([e.chrono] + [atom(x) for x in parts])
        if k == "pvariant":
            parts = [self.pure(x) for x in e.args]
            if any(x is None for x in parts):
                return None
            return " ".join([f"{e.enum}.{lname(e.name)}"] + [atom(x) for x in parts])
        if k == "method" and e.name == "and_then" and e.args and e.args[0].kind == "closure":
            a, b = self.pure(e.e), self.pure(e.args[0].body)
            if a is None or b is None:
                return None
            return f"Option.bind {atom(a)} (fun {lname(e.args[0].params[0][0])} => {b})"
        if k == "method" and getattr(e, "optmap_into", False):  # [dated extension] value-preserving
            return self.pure(e.e)
        if k == "method" and e.name == "saturating_neg":  # [dated extension]
            a = self.pure(e.e)
            return None if a is None else f"saturatingNeg {self.tyname(e.ty)} {atom(a)}"
        if k == "method" and e.name == "into" and getattr(e, "into_from_enum", None):  # [dated extension] `val as _`
            a = self.pure(e.e)
            return None if a is None else f"wrap .{e.into_from_enum[1]} ({e.into_from_enum[0]}.discr {atom(a)})"
        if k == "method" and getattr(e, "dated_chain", None):
            return None
        if k == "self":
            return "self"
        if k in ("paren", "ref"):
            return self.pure(e.e)
        if k == "range":
            l, r = self.pure(e.l), self.pure(e.r)
            if l is None or r is None:
                return None
            return self.range_term(e, l, r)
        if k == "call" and getattr(e, "cmpfn", None):
            l, r = self.pure(e.args[0]), self.pure(e.args[1])
            if l is None or r is None:
                return None
            return f"{e.cmpfn} {atom(l)} {atom(r)}"
        if k == "method" and getattr(e, "lib", None):
            b = self.pure(e.e)
            if b is None:
                return None
            if e.lib in ("start", "end"):
                return f"{atom(b)}.{lname(e.lib)}"
            a = self.pure(e.args[0])
            if a is None:
                return None
            return self.contains_term(e, b, a)
        if k == "field":
            b = self.pure(e.e)
            return None if b is None else f"{atom(b)}.{field_name(e.name)}"
        if k == "deref":
            b = self.pure(e.e)
            if b is None:
                return None
            return b if e.deref_kind == "ref" else f"{atom(b)}.{field_name('0')}"
        if k == "call" and getattr(e, "tryfrom", None):  # [iteration extension]
            b = self.pure(e.args[0])
            return None if b is None else f"tryInto .{e.tryfrom} {atom(b)}"
        if k == "method" and getattr(e, "deque_get", False):
            b, a = self.pure(e.e), self.pure(e.args[0])
            return None if a is None or b is None else f"{atom(b)}[{int_atom(a)}.toNat]?"
        if k == "method" and (getattr(e, "oracle", None) or getattr(e, "optmap", False) or getattr(e, "closure_ret", False)):
            return None
        if k == "tuple":  # [iteration extension]
            parts = [self.pure(x) for x in e.items]
            return None if any(p is None for p in parts) else "(" + ", ".join(parts) + ")"
        if k == "none":
            return "none"
        if k == "some":
            b = self.pure(e.e)
            return None if b is None else f"some {atom(b)}"
        if k == "structlit":
            parts = [self.pure(fe) for _, fe in e.fields]
            if any(p is None for p in parts):
                return None
            decl = [f for f, _ in self.structs[e.struct]]
            byname = {fn: p for (fn, _), p in zip(e.fields, parts)}
            return "{ " + ", ".join(f"{field_name(fn)} := {byname[fn]}" for fn in decl) + f" : {e.struct} }}"
        if k == "not":
            b = self.pure(e.e)
            return None if b is None else f"!{atom(b)}"
        if k == "cast":
            b = self.pure(e.e)
            if b is None:
                return None
            return self.cast_term(e, b)
        if k == "variant":
            return f"{e.enum_name}.{lname(e.name)}"
        if k == "method" and getattr(e, "hole", None):
            return "()" if e.hole == -1 else hole_lean_names(self.fi.holes)[e.hole - 1]
        if k == "blockexpr" and not e.b.stmts and e.b.tail.kind != "return":
            return self.pure(e.b.tail)
        if k == "method" and e.name == "unwrap_or":
            a, b = self.pure(e.e), self.pure(e.args[0])
            return None if a is None or b is None else f"Option.getD {atom(a)} {atom(b)}"
        if k == "method" and e.name == "saturating_sub":
            a, b = self.pure(e.e), self.pure(e.args[0])
            return None if a is None or b is None else f"saturatingSub {self.tyname(e.ty)} {atom(a)} {atom(b)}"
        if k == "method" and e.name == "map_err":
            return self.pure(e.e)
        if k == "method" and e.name == "try_into" and getattr(e, "enum_callee", None):
            return None
        if k == "call" and getattr(e, "conv", None):
            return self.pure(e.args[0])
        if k == "method" and e.name == "into":
            return self.pure(e.e)
        if k == "method" and e.name in ("try_into", "checked_add", "checked_sub", "checked_mul", "ok", "trailing_zeros", "count_ones"):
            b = self.pure(e.e)
            if b is None:
                return None
            if e.name == "ok":
                return b
            if e.name == "try_into":
                return f"tryInto {self.tyname(prune(e.ty)[1])} {atom(b)}"
            if e.name in ("trailing_zeros", "count_ones"):
                fn = {"trailing_zeros": "trailingZeros", "count_ones": "countOnes"}[e.name]
                return f"{fn} {self.tyname(e.e.ty)} {atom(b)}"
            a = self.pure(e.args[0])
            if a is None:
                return None
            fn = {"checked_add": "checkedAdd", "checked_sub": "checkedSub", "checked_mul": "checkedMul"}[e.name]
            return f"{fn} {self.tyname(e.e.ty)} {atom(b)} {atom(a)}"
        if k == "bin":
            op = e.op
            l, r = self.pure(e.l), self.pure(e.r)
            if l is None or r is None:
                return None
            if op in ("&&", "||"):
                return f"{atom(l)} {op} {atom(r)}"
            if op in ("==", "!="):
                if prune(e.l.ty)[0] == "bool":
                    return f"{atom(l)} {op} {atom(r)}"
                return f"decide ({l} {'=' if op == '==' else '≠'} {r})"
            if op in ("<", "<=", ">", ">="):
                return f"decide ({l} {op.replace('<=', '≤').replace('>=', '≥')} {r})"
            if op in ("/", "%") and self.const_divisor(e.r):
                return f"Int.{'tdiv' if op == '/' else 'tmod'} {atom(l)} {atom(r)}"
            if op in ("&", "|", "^"):
                self.unsigned_only(e)
                return f"{ {'&': 'band', '|': 'bor', '^': 'bxor'}[op] } {atom(l)} {atom(r)}"
            return None
        if k == "if":
            c = self.pure(e.c)
            if c is None or e.a.stmts or e.b.stmts or e.a.tail.kind == "return" or e.b.tail.kind == "return":
                return None
            a, b = self.pure(e.a.tail), self.pure(e.b.tail)
            if a is None or b is None:
                return None
            return f"if {c} then {a} else {b}"
        return None

    def cast_term(self, e, a):
        if getattr(e, "from_enum", None):
            return f"wrap {self.tyname(e.to)} ({e.from_enum}.discr {atom(a)})"
        return f"wrap {self.tyname(e.to)} {atom(a)}"

    def range_term(self, e, l, r):
        return f"{'RangeInclusive' if e.incl else 'Range'}.mk {atom(l)} {atom(r)}"

    def contains_term(self, e, recv, x):
        head = "RangeInclusive" if strip_ref(e.e.ty)[0] == "rangeincl" else "Range"
        return f"{head}.contains {atom(recv)} {atom(x)}"

    def unsigned_only(self, e):
        t = prune(e.ty)
        if t[0] != "int" or t[1].startswith("i"):
            fail(f"{self.fi.fname}:{e.line}", f"bit operation `{e.op}` on {show(t)}: only unsigned types are translated")

    def const_divisor(self, r):
        """a literal divisor other than 0 and -1: `/` and `%` cannot fail"""
        while r.kind == "paren":
            r = r.e
        return r.kind == "lit" and r.value not in (0,)

    # effects --------------------------------------------------------------------------------------
    def cg(self, e, k, depth):
        p = self.pure(e)
        if p is not None:
            return k(p)
        kind = e.kind
        I = self.ind(depth)
        if kind in ("paren", "ref"):
            return self.cg(e.e, k, depth)
        if kind == "unreachable":
            return f"{I}.error (.panic \"internal error: entered unreachable code\")"
        if kind == "method" and getattr(e, "optmap_into", False):  # [dated extension]
            return self.cg(e.e, k, depth)
        if kind == "method" and e.name == "saturating_neg":  # [dated extension]
            return self.cg(e.e, lambda a: k(f"saturatingNeg {self.tyname(e.ty)} {atom(a)}"), depth)
        if kind == "method" and e.name == "into" and getattr(e, "into_from_enum", None):  # [dated extension]
            return self.cg(e.e, lambda a: k(f"wrap .{e.into_from_enum[1]} ({e.into_from_enum[0]}.discr {atom(a)})"), depth)
        if kind == "call" and getattr(e, "fnparam", None):
            # [dated extension] the call of an `impl FnOnce` parameter: it may have any outcome
            def kf(ts):
                v = self.fresh()
                return f"{I}bnd ({' '.join([lname(e.fnparam)] + [int_atom(t) for t in ts])}) fun {v} =>\n" + k(v)
            return self.cg_args(e.args, kf, depth)
        if kind == "call" and getattr(e, "extern_to_chrono", None):
            # [dated extension] the argument tuple a non-chrono function returns, given its chrono meaning
            def kx(v):
                projs = [f"{atom(v)}" + ".2" * n + (".1" if n < e.extern_arity - 1 else "") for n in range(e.extern_arity)]
                return k(" ".join([e.extern_to_chrono] + projs))
            return self.cg_call(e, e.callee, None, e.args, kx, depth)
        if kind == "method" and getattr(e, "dated_chain", None):
            return self.dated_cg_chain(e, k, depth)
        if kind == "arraylit":
            return self.cg_args(e.elems, lambda ts: k("[" + ", ".join(ts) + "]"), depth)
        if kind == "call" and getattr(e, "fn_hole", None):
            return self.cg_args(e.args, lambda ts: k(" ".join([f"ext_{e.fn_hole}"] + [atom(x) for x in ts])), depth)
        if kind in ("call", "method") and getattr(e, "chrono", None):
            return self.cg_args(([e.e] if kind == "method" else []) + list(e.args),
                                lambda ts: k(" ".join([e.chrono] + [atom(x) for x in ts])), depth)
        if kind == "pvariant":
            return self.cg_args(e.args, lambda ts: k(" ".join([f"{e.enum}.{lname(e.name)}"] + [atom(x) for x in ts])), depth)
        if kind == "call" and getattr(e, "closure", None):
            # the call of a local closure: its body, with the arguments bound to its parameters, as a closed
            # sub-computation (`?` inside it leaves the closure, not the function)
            c = e.closure

            def kc(terms):
                v = self.fresh()
                tmps = [self.fresh() for _ in terms]
                J = self.ind(depth + 2)
                lets = "".join(f"{J}let {t} := {a}\n" for t, a in zip(tmps, terms))
                lets += "".join(f"{J}let {lname(pn)} := {t}\n" for (pn, _), t in zip(c.params, tmps))
                self.closed += 1
                self.in_closure += 1
                saved_base, self.closed_base = self.closed_base, self.closed
                inner = self.cg(c.body, self.PURE_RET(depth + 2), depth + 2)
                self.closed_base = saved_base
                self.in_closure -= 1
                self.closed -= 1
                return f"{I}bnd (\n{lets}{inner}) fun {v} =>\n" + k(v)
            return self.cg_args(e.args, kc, depth)
        if kind == "method" and e.name == "and_then" and e.args and e.args[0].kind == "closure":
            c = e.args[0]

            def ka(a):
                v = self.fresh()
                self.closed += 1
                inner = self.cg(c.body, self.PURE_RET(depth + 2), depth + 2)
                self.closed -= 1
                return (f"{I}bnd (match {a} with\n{I}  | none => .ok none\n{I}  | some {lname(c.params[0][0])} =>\n{inner}) fun {v} =>\n" + k(v))
            return self.cg(e.e, ka, depth)
        if kind in ("tuple", "iflet") or (kind == "method" and getattr(e, "iterop", None)) or \
                (kind == "index" and getattr(e, "slice_from", None) is not None) or \
                (kind == "call" and getattr(e, "tryfrom", None)) or \
                (kind == "method" and (getattr(e, "deque_get", False) or getattr(e, "oracle", None) or getattr(e, "optmap", False)
                                       or getattr(e, "closure_ret", False))):
            return self.cg_iter_ext(e, k, depth)  # [iteration extension]
        if kind == "range":
            return self.cg(e.l, lambda l: self.cg(e.r, lambda r: k(self.range_term(e, l, r)), depth), depth)
        if kind == "call" and getattr(e, "cmpfn", None):
            return self.cg_args(e.args, lambda ts: k(f"{e.cmpfn} {atom(ts[0])} {atom(ts[1])}"), depth)
        if kind == "method" and getattr(e, "lib", None):
            if e.lib in ("start", "end"):
                return self.cg(e.e, lambda b: k(f"{atom(b)}.{lname(e.lib)}"), depth)
            return self.cg(e.e, lambda b: self.cg(e.args[0], lambda a: k(self.contains_term(e, b, a)), depth), depth)
        if kind == "bin":
            op = e.op
            if op in ("&&", "||"):
                # short circuit: the right operand is evaluated only if needed
                def kl(l):
                    v = self.fresh()
                    short = "false" if op == "&&" else "true"
                    cond = l if op == "&&" else f"!{atom(l)}"
                    if self.has_return(e.r):
                        fail(f"{self.fi.fname}:{e.line}", f"`?` / `return` in the right operand of `{op}`")
                    self.closed += 1
                    inner = self.cg(e.r, self.PURE_RET(depth + 2), depth + 2)
                    self.closed -= 1
                    return (f"{I}bnd (if {cond} then\n{inner}\n{I}  else .ok {short}) fun {v} =>\n" + k(v))
                return self.cg(e.l, kl, depth)

            def kl(l):
                def kr(r):
                    if op in ("/", "%") and self.const_divisor(e.r):
                        return k(f"Int.{'tdiv' if op == '/' else 'tmod'} {atom(l)} {atom(r)}")
                    v = self.fresh()
                    if op in ("+", "-", "*", "/", "%"):
                        fn = {"+": "add", "-": "sub", "*": "mul", "/": "div", "%": "rem"}[op]
                        return f"{I}bnd ({fn} {self.tyname(e.ty)} {self.site(e)} {atom(l)} {atom(r)}) fun {v} =>\n" + k(v)
                    if op in ("<<", ">>"):
                        self.unsigned_only(e)
                        fn = {"<<": "shl", ">>": "shr"}[op]
                        return f"{I}bnd ({fn} {self.tyname(e.ty)} {self.site(e)} {atom(l)} {atom(r)}) fun {v} =>\n" + k(v)
                    # comparisons and bit operations of effectful operands: now pure in the temporaries
                    fake = Node("bin", e.line, op=op, l=Node("var", e.line, name=l), r=Node("var", e.line, name=r))
                    fake.ty = e.ty
                    fake.l.ty, fake.r.ty = e.l.ty, e.r.ty
                    fake.l.raw = fake.r.raw = True
                    return k(self.pure_raw(fake, l, r))
                return self.cg(e.r, kr, depth)
            return self.cg(e.l, kl, depth)
        if kind == "neg":
            def k1(a):
                v = self.fresh()
                return f"{I}bnd (neg {self.tyname(e.ty)} {self.site(e)} {atom(a)}) fun {v} =>\n" + k(v)
            return self.cg(e.e, k1, depth)
        if kind == "deref":
            return self.cg(e.e, lambda a: k(a if e.deref_kind == "ref" else f"{atom(a)}.{field_name('0')}"), depth)
        if kind in ("not", "cast", "some", "field"):
            def k1(a):
                if kind == "not":
                    return k(f"!{atom(a)}")
                if kind == "cast":
                    return k(self.cast_term(e, a))
                if kind == "some":
                    return k(f"some {atom(a)}")
                return k(f"{atom(a)}.{field_name(e.name)}")
            return self.cg(e.e, k1, depth)
        if kind == "structlit":
            decl = [f for f, _ in self.structs[e.struct]]

            def go(i, acc):
                if i == len(e.fields):
                    byname = dict(acc)
                    return k("{ " + ", ".join(f"{field_name(fn)} := {byname[fn]}" for fn in decl) + f" : {e.struct} }}")
                fn, fe = e.fields[i]
                return self.cg(fe, lambda a: go(i + 1, acc + [(fn, a)]), depth)
            return go(0, [])
        if kind == "try":
            def k1(a):
                v = self.fresh()
                return f"{I}match {a} with\n{I}| none => {self.ret_term('none')}\n{I}| some {v} =>\n" + k(v)
            return self.cg(e.e, k1, depth)
        if kind == "if":
            def kc(c):
                if getattr(k, "is_ret", False):
                    return (f"{I}if {c} then\n" + self.block(e.a, self.RET(depth + 1), depth + 1) + f"\n{I}else\n"
                            + self.block(e.b, self.RET(depth + 1), depth + 1))
                if getattr(e, "stmt_level", False) or self.has_return(e.a) or self.has_return(e.b):
                    # the branches assign / return: what follows is generated inside each of them (the inference
                    # checked that no name bound in a branch hides an outer one)
                    if self.closed > self.closed_base:
                        fail(f"{self.fi.fname}:{e.line}", "`return` / an assignment inside an `if` inside a closed sub-expression (an operand) is outside the translated subset")
                    k1 = self.deeper(k)
                    return (f"{I}if {c} then\n" + self.block(e.a, k1, depth + 1) + f"\n{I}else\n" + self.block(e.b, k1, depth + 1))
                v = self.fresh()
                self.closed += 1
                if self.has_return(e.a) or self.has_return(e.b):
                    fail(f"{self.fi.fname}:{e.line}", "`return` inside an `if` whose value is used by an enclosing expression")
                txt = (f"{I}bnd (if {c} then\n" + self.block(e.a, self.PURE_RET(depth + 2), depth + 2) + f"\n{I}  else\n"
                       + self.block(e.b, self.PURE_RET(depth + 2), depth + 2) + f") fun {v} =>\n")
                self.closed -= 1
                return txt + k(v)
            return self.cg(e.c, kc, depth)
        if kind == "call":
            if getattr(e, "conv", None):
                return self.cg(e.args[0], k, depth)
            if getattr(e, "extern", None):
                return self.cg_args(e.args, lambda terms: k("(" + ", ".join(terms) + ")"), depth)
            return self.cg_call(e, e.callee, None, e.args, k, depth)
        if kind == "return":
            return self.cg_root(e.e, self.RET(depth), depth)
        if kind == "constref":
            return self.cg_call(e, e.callee, None, [], k, depth)
        if kind == "method" and e.name == "unwrap_or":
            return self.cg(e.e, lambda a: self.cg(e.args[0], lambda b: k(f"Option.getD {atom(a)} {atom(b)}"), depth), depth)
        if kind == "method" and e.name == "saturating_sub":
            return self.cg(e.e, lambda a: self.cg(e.args[0], lambda b: k(f"saturatingSub {self.tyname(e.ty)} {atom(a)} {atom(b)}"), depth), depth)
        if kind == "method" and e.name == "or_else":
            # the closure runs only on `None`
            th = e.args[0].e
            if self.has_return(th):
                fail(f"{self.fi.fname}:{e.line}", "`?` / `return` inside a closure")

            def ko(a):
                v, v2 = self.fresh(), self.fresh()
                self.closed += 1
                inner = self.cg(th, self.PURE_RET(depth + 2), depth + 2)
                self.closed -= 1
                return (f"{I}bnd (match {a} with\n{I}  | some {v2} => .ok (some {v2})\n{I}  | none =>\n{inner}) fun {v} =>\n" + k(v))
            return self.cg(e.e, ko, depth)
        if kind == "blockexpr":
            if not e.b.stmts:
                return self.cg(e.b.tail, k, depth)
            # the names bound inside the block must not reach the continuation: the block is a closed sub-computation
            if self.has_return(e.b):
                fail(f"{self.fi.fname}:{e.line}", "`?` / `return` inside a block expression with statements")
            v = self.fresh()
            self.closed += 1
            txt = f"{I}bnd (\n" + self.block(e.b, self.PURE_RET(depth + 2), depth + 2) + f") fun {v} =>\n"
            self.closed -= 1
            return txt + k(v)
        if kind == "match" and (getattr(e, "stmt_level", False) or self.has_return(e.arms)) and not getattr(k, "is_ret", False) and self.closed > self.closed_base:
            fail(f"{self.fi.fname}:{e.line}", "`return` / an assignment inside a `match` inside a closed sub-expression (an operand) is outside the translated subset")
        if kind == "match" and not getattr(k, "is_ret", False) and any(b.stmts for _, b in e.arms) and not getattr(e, "closed_done", False) \
                and not (getattr(e, "stmt_level", False) or self.has_return(e.arms)):
            # arms that bind names: a closed sub-computation, as above
            if self.has_return(e):
                fail(f"{self.fi.fname}:{e.line}", "`?` / `return` inside a `match` with statements whose value is used by an enclosing expression")
            v = self.fresh()
            e.closed_done = True
            self.closed += 1
            txt = f"{I}bnd (\n" + self.cg(e, self.PURE_RET(depth + 2), depth + 2) + f") fun {v} =>\n"
            self.closed -= 1
            e.closed_done = False
            return txt + k(v)
        if kind == "match":
            k_arm = k if getattr(k, "is_ret", False) or not (getattr(e, "stmt_level", False) or self.has_return(e.arms)) else self.deeper(k)

            def ks(v):
                if any(p.kind in ("svariant", "orpat") for p, _ in e.arms):
                    return self.dated_match_arms(e, v, k_arm, depth, 0)  # [dated extension]
                is_int = strip_ref(e.scrut.ty)[0] == "int"
                out = []
                for n, (pat, body) in enumerate(e.arms):
                    arm = self.block(body, k_arm, depth + 1)
                    if is_int:
                        if pat.kind == "bindall":
                            out.append(f"{I}else\n{self.ind(depth + 1)}let {lname(pat.name)} := {v}\n{arm}")
                        elif pat.kind == "wild":
                            out.append(f"{I}else\n{arm}")
                        else:
                            out.append(f"{I}{'if' if n == 0 else 'else if'} {v} = {lit(pat.value)} then\n{arm}")
                    else:
                        pt = "_" if pat.kind == "wild" else f".{lname(pat.name)}"
                        if pat.kind == "pvariant":
                            pt = " ".join([pt] + [lname(b) for b in pat.binds])
                        out.append(f"{I}| {pt} =>\n{arm}")
                if is_int:
                    if len(e.arms) == 1:
                        return self.block(e.arms[0][1], k, depth)
                    return "\n".join(out)
                return f"{I}match {v} with\n" + "\n".join(out)
            return self.cg(e.scrut, ks, depth)
        if kind == "index":
            return self.cg_index(e, k, depth)
        if kind == "method" and getattr(e, "mutcall", False):
            # `place.f(args)` with `f(&mut self, ..)`: the callee returns (result, new state); the place is rebound
            if self.allow_mut is not e:
                fail(f"{self.fi.fname}:{e.line}", f"the call of the `&mut self` method {e.name} inside a larger expression is "
                     "outside the translated subset (bind its result with `let` first)")
            self.allow_mut = None
            self.no_mutation_here(e)
            callee = e.callee
            fn = callee.lean_name if callee.ns == self.fi.ns else f"{callee.ns}.{callee.lean_name}"

            def with_recv(recv):
                def kk(terms):
                    v = self.fresh()
                    root, new = self.place_update(e.e, f"{v}.2")
                    call = " ".join([lname(fn), atom(recv)] + [atom(t) for t in terms])
                    return f"{I}bnd ({call}) fun {v} =>\n{I}let {lname(root)} := {new}\n" + k(f"{v}.1")
                return self.cg_args(e.args, kk, depth)
            if e.e.kind == "index":
                return self.cg_index(e.e, with_recv, depth)
            recv = self.pure(e.e)
            if recv is None:
                fail(f"{self.fi.fname}:{e.line}", "this receiver is outside the translated subset")
            return with_recv(recv)
        if kind == "method":
            name = e.name
            if name in ("expect", "unwrap"):
                def k1(a):
                    v = self.fresh()
                    return f"{I}match {a} with\n{I}| none => .error (.panic \"{e.msg}\")\n{I}| some {v} =>\n" + k(v)
                return self.cg(e.e, k1, depth)
            if name in ("ok", "into", "map_err"):
                return self.cg(e.e, k, depth)
            if name == "try_into" and getattr(e, "enum_callee", None):
                callee = e.enum_callee
                fn = callee.lean_name if callee.ns == self.fi.ns else f"{callee.ns}.{callee.lean_name}"

                def kt(a):
                    v = self.fresh()
                    return f"{I}bnd ({lname(fn)} {atom(a)}) fun {v} =>\n" + k(v)
                return self.cg(e.e, kt, depth)
            if name == "try_into":
                return self.cg(e.e, lambda a: k(f"tryInto {self.tyname(prune(e.ty)[1])} {atom(a)}"), depth)
            if name in ("trailing_zeros", "count_ones"):
                fn = {"trailing_zeros": "trailingZeros", "count_ones": "countOnes"}[name]
                return self.cg(e.e, lambda a: k(f"{fn} {self.tyname(e.e.ty)} {atom(a)}"), depth)
            if name in ("checked_add", "checked_sub", "checked_mul"):
                fn = {"checked_add": "checkedAdd", "checked_sub": "checkedSub", "checked_mul": "checkedMul"}[name]
                return self.cg(e.e, lambda a: self.cg(e.args[0], lambda b: k(f"{fn} {self.tyname(e.e.ty)} {atom(a)} {atom(b)}"), depth), depth)
            return self.cg_call(e, e.callee, e.e, e.args, k, depth)
        fail(f"{self.fi.fname}:{e.line}", f"cannot translate expression kind {kind}")

    # [iteration extension] ----------------------------------------------------------------------
    def bind_tuple(self, names, term, depth):
        """`let a := t.1`, `let b := t.2` (.., the last one `t.2.2`) for the components of the tuple `term`"""
        I, out = self.ind(depth), ""
        for n, nm in enumerate(names):
            if re.fullmatch(r"tmp\d+", nm):
                fail(f"{self.fi.fname}:{self.fi.node.line}", f"local name {nm} clashes with the translator's temporaries")
            proj = ".2" * n + (".1" if n < len(names) - 1 else "")
            out += f"{I}let {lname(nm)} := {atom(term)}{proj}\n"
        return out

    def cg_iter_ext(self, e, k, depth):
        kind, I = e.kind, self.ind(depth)
        if kind == "tuple":
            return self.cg_args(e.items, lambda ts: k("(" + ", ".join(ts) + ")"), depth)
        if kind == "iflet":
            def ks(s):
                x = lname(e.name)
                if getattr(k, "is_ret", False):
                    a = self.block(e.a, self.RET(depth + 1), depth + 1)
                    b = self.block(e.b, self.RET(depth + 1), depth + 1)
                    if "match " in a:
                        a = f"{I}  (\n{a})"  # the arms of an inner `match` must not swallow the `none` arm below
                    return f"{I}match {s} with\n{I}| some {x} =>\n{a}\n{I}| none =>\n{b}"
                v = self.fresh()
                self.closed += 1
                if self.has_return(e.a) or self.has_return(e.b):
                    fail(f"{self.fi.fname}:{e.line}", "`return` / `?` inside an `if let` whose value is used by an enclosing expression")
                a = self.block(e.a, self.PURE_RET(depth + 2), depth + 2)
                b = self.block(e.b, self.PURE_RET(depth + 2), depth + 2)
                if "match " in a:
                    a = f"{I}    (\n{a})"
                txt = f"{I}bnd (match {s} with\n{I}  | some {x} =>\n{a}\n{I}  | none =>\n{b}) fun {v} =>\n"
                self.closed -= 1
                return txt + k(v)
            return self.cg(e.e, ks, depth)
        if kind == "index":
            # `base[i..]`: the index is evaluated, then checked against the length (a panic outcome)
            base = self.pure(e.e)
            if base is None:
                fail(f"{self.fi.fname}:{e.line}", "only an array that is a field is sliced in the translated subset")

            def ki(i):
                v = self.fresh()
                return f"{I}bnd (sliceFrom {atom(base)}.toList {int_atom(i)}) fun {v} =>\n" + k(v)
            return self.cg(e.slice_from, ki, depth)
        if kind == "call":  # `T::try_from(e)`
            return self.cg(e.args[0], lambda a: k(f"tryInto .{e.tryfrom} {atom(a)}"), depth)
        if getattr(e, "deque_get", False):
            return self.cg(e.e, lambda b: self.cg(e.args[0], lambda a: k(f"{atom(b)}[{int_atom(a)}.toNat]?"), depth), depth)
        if getattr(e, "oracle", None):
            # `EXTERN(args).expect("..")`: the arguments, if the library call returns `Some` (an oracle parameter)
            def kx(terms):
                v = self.fresh()
                return (f"{I}if {ORACLES[e.oracle][0]} {' '.join(atom(t) for t in terms)} then\n"
                        f"{I}let {v} := ({', '.join(terms)})\n" + k(v) + f"\n{I}else .error (.panic \"{e.msg}\")")
            return self.cg_args(strip_paren(e.e).args, kx, depth)
        if getattr(e, "optmap", False) or getattr(e, "closure_ret", False):
            f = e.args[0]
            saved = (getattr(self, "in_closure", 0), self.ret_ty, self.closed, self.allow_mut)

            def ko(o):
                v, v2 = self.fresh(), self.fresh()
                self.in_closure, self.closed, self.allow_mut = saved[0] + 1, self.closed + 1, None
                if getattr(e, "optmap", False):
                    if f.kind != "closure":
                        fail(f"{self.fi.fname}:{e.line}", "`Option::map` with a function path is outside the translated subset")
                    self.ret_ty = None
                    pre = self.bind_tuple(f.pat, v2, depth + 2) if isinstance(f.pat, list) else f"{self.ind(depth + 2)}let {lname(f.pat)} := {v2}\n"
                    body = f.e.b if f.e.kind == "blockexpr" else Node("block", f.e.line, stmts=[], tail=f.e)

                    def kk(term):
                        return f"{self.ind(depth + 2)}.ok (some {atom(term)})"
                    inner = pre + self.block(body, kk, depth + 2)
                    txt = f"{I}bnd (match {o} with\n{I}  | none => .ok none\n{I}  | some {v2} =>\n{inner}) fun {v} =>\n"
                else:
                    self.ret_ty = e.ty
                    body = f.e.b if f.e.kind == "blockexpr" else Node("block", f.e.line, stmts=[], tail=f.e)
                    inner = self.block(body, self.RET(depth + 2), depth + 2)
                    txt = f"{I}bnd (match {o} with\n{I}  | some {v2} => .ok (some {v2})\n{I}  | none =>\n{inner}) fun {v} =>\n"
                self.in_closure, self.ret_ty, self.closed, self.allow_mut = saved
                return txt + k(v)
            return self.cg(e.e, ko, depth)
        # an iterator chain, from its consumer
        if e.iterop not in ("find_map", "sum"):
            fail(f"{self.fi.fname}:{e.line}", f"an iterator that is not consumed by `find_map` / `sum` here is outside the translated subset")
        stages, n = [], strip_paren(e.e)
        while n.kind == "method" and getattr(n, "iterop", None) in ("enumerate", "copied", "skip", "map"):
            stages.append(n)
            n = strip_paren(n.e)
        zipn = None
        if n.kind == "method" and getattr(n, "iterop", None) == "zipfrom":
            # `(start..).zip(CHAIN)`: CHAIN is walked down in the same way
            zipn = n
            if e.iterop != "find_map" or any(st.iterop != "map" for st in stages):
                fail(f"{self.fi.fname}:{e.line}", "after `(a..).zip(..)` only `map` and `find_map` are translated")
            n = strip_paren(n.args[0])
            zstages = []
            while n.kind == "method" and getattr(n, "iterop", None) in ("enumerate", "copied", "skip"):
                zstages.append(n)
                n = strip_paren(n.e)
            stages = stages + zstages
        if not (n.kind == "method" and getattr(n, "iterop", None) == "iter"):
            fail(f"{self.fi.fname}:{n.line}", "the source of this iterator chain is outside the translated subset (`.iter()` of an array field or of a slice of it)")
        stages.reverse()
        src = strip_paren(n.e)
        maps = [st.args[0] for st in stages if st.iterop == "map"]

        def consume(lst):
            """`lst`: the Lean list of the elements that reach the closures, all adaptor arguments evaluated"""
            x = self.fresh()
            fns = maps + ([e.args[0]] if e.iterop == "find_map" else [])
            saved = (getattr(self, "in_closure", 0), self.ret_ty, self.closed, self.allow_mut)
            self.in_closure, self.closed, self.allow_mut = saved[0] + 1, self.closed + 1, None
            self.ret_ty = fns[-1].ret_t if fns and fns[-1].kind == "closure" else None

            def apply(j, arg):
                if j == len(fns):
                    return f"{self.ind(depth + 2)}.ok {atom(arg)}"
                last = j == len(fns) - 1
                f = fns[j]
                if f.kind == "variant":
                    callee = f.fn_callee
                    fn = callee.lean_name if callee.ns == self.fi.ns else f"{callee.ns}.{callee.lean_name}"
                    if last:
                        return f"{self.ind(depth + 2)}{lname(fn)} {atom(arg)}"
                    v = self.fresh()
                    return f"{self.ind(depth + 2)}bnd ({lname(fn)} {atom(arg)}) fun {v} =>\n" + apply(j + 1, v)
                pre = self.bind_tuple(f.pat, arg, depth + 2) if isinstance(f.pat, list) else \
                    (f"{self.ind(depth + 2)}let {lname(f.pat)} := {arg}\n" if lname(f.pat) != arg else "")
                if last:
                    kk = self.RET(depth + 2)  # the tail / `?` of the last closure leave the composed function
                else:
                    if self.has_return(f.e):
                        fail(f"{self.fi.fname}:{f.line}", "`?` / `return` inside a `map` closure that is not the last of the chain")

                    def kk(term, j=j):
                        return apply(j + 1, term)
                body = f.e.b if f.e.kind == "blockexpr" else Node("block", f.e.line, stmts=[], tail=f.e)
                return pre + self.block(body, kk, depth + 2)
            body = apply(0, x)
            self.in_closure, self.ret_ty, self.closed, self.allow_mut = saved
            fun = f"(fun {x} =>\n{body})"
            if zipn is not None:
                call = f"findMapZipFromM {self.tyname(strip_paren(zipn.e).l.ty)} {self.site(zipn)} {fun} {atom(zipn.start_term)} {atom(lst)}"
            elif e.iterop == "find_map":
                call = f"findMapM {fun} {atom(lst)}"
            else:
                call = f"sumM {self.tyname(e.ty)} {self.site(e)} {fun} {atom(lst)}"
            if getattr(k, "is_ret", False) and not saved[0] and not self.fi.node.mut_self and prune(e.ty) == prune(self.ret_ty):
                return f"{I}{call}"
            v = self.fresh()
            return f"{I}bnd ({call}) fun {v} =>\n" + k(v)

        def run(j, lst):
            """the adaptors that rearrange the elements, in the order of the chain (their arguments are evaluated when
            the adaptor is called, i.e. before the consumer pulls anything)"""
            if j == len(stages):
                return consume(lst)
            st = stages[j]
            if st.iterop == "enumerate":
                return run(j + 1, f"enumerate {atom(lst)}")
            if st.iterop == "copied":
                return run(j + 1, lst)
            if st.iterop == "skip":
                return self.cg(st.args[0], lambda a: run(j + 1, f"List.drop {int_atom(a)}.toNat {atom(lst)}"), depth)
            return run(j + 1, lst)  # map: composed into the element function by `consume`
        def from_src():
            if strip_ref(src.ty)[0] == "array":
                base = self.pure(src)
                if base is None:
                    fail(f"{self.fi.fname}:{src.line}", "only an array that is a field is iterated in the translated subset")
                return run(0, f"{atom(base)}.toList")
            return self.cg(src, lambda l: run(0, l), depth)  # a slice, a `VecDeque`: already a list
        if zipn is not None:
            # the receiver `(start..)` is evaluated before the argument of `zip`
            def kz(st):
                zipn.start_term = st
                return from_src()
            return self.cg(strip_paren(zipn.e).l, kz, depth)
        return from_src()
    # ---------------------------------------------------------------------------------------------

    def pure_raw(self, fake, l, r):
        op = fake.op
        if op in ("==", "!="):
            if prune(fake.l.ty)[0] == "bool":
                return f"{atom(l)} {op} {atom(r)}"
            return f"decide ({l} {'=' if op == '==' else '≠'} {r})"
        if op in ("<", "<=", ">", ">="):
            return f"decide ({l} {op.replace('<=', '≤').replace('>=', '≥')} {r})"
        if op in ("&", "|", "^"):
            self.unsigned_only(fake)
            return f"{ {'&': 'band', '|': 'bor', '^': 'bxor'}[op] } {atom(l)} {atom(r)}"
        fail(f"{self.fi.fname}:{fake.line}", f"operator {op}")

    # [dated extension] ---------------------------------------------------------------------------
    def dated_pat(self, pat):
        if pat.kind == "wild":
            return "_"
        if pat.kind == "orpat":
            return " | ".join(self.dated_pat(a) for a in pat.alts)
        subs = dict(pat.fields)
        parts = []
        for fn in DATED_PENUM_FIELDS[(pat.enum, pat.name)]:
            sub = subs.get(fn)
            parts.append("_" if sub is None else lname(fn) if sub[0] == "bind" else "none" if sub[0] == "none" else f"(some {lname(sub[1])})")
        return " ".join([f".{lname(pat.name)}"] + parts)

    def dated_match_arms(self, e, v, k_arm, depth, start):
        """the arms from `start` on, as a Lean `match` (first match, as in Rust); an arm with a guard `if c` is
        `| pat => if c then body else (the match of the remaining arms)`"""
        I = self.ind(depth)
        out = [f"{I}match {v} with"]
        for n in range(start, len(e.arms)):
            pat, body = e.arms[n]
            arm = self.block(body, k_arm, depth + 1)
            g = getattr(pat, "guard", None)
            if g is None:
                out.append(f"{I}| {self.dated_pat(pat)} =>\n{arm}")
                continue
            c = self.pure(g)
            if c is None:
                fail(f"{self.fi.fname}:{g.line}", "a match guard that can overflow / panic is outside the translated subset")
            if n + 1 == len(e.arms):
                fail(f"{self.fi.fname}:{g.line}", "a guard on the last arm")
            rest = self.dated_match_arms(e, v, self.deeper(self.deeper(k_arm)), depth + 2, n + 1)
            out.append(f"{I}| {self.dated_pat(pat)} =>\n{I}  if {c} then\n{arm}\n{I}  else (\n{rest})")
            break
        return "\n".join(out)

    def dated_cg_chain(self, e, k, depth):
        """`OPT.into_iter().chain((LO..HI).rev().filter_map(|x| BODY)).next()` = `firstOrRevFindMapM OPT (fun x => BODY) LO HI`
        (OH/Model/RustDated.lean); OPT, LO, HI are evaluated in this order, before anything is pulled"""
        I = self.ind(depth)
        src, rg, f = e.dated_chain

        def ko(o):
            def kl(lo):
                def kh(hi):
                    saved = (getattr(self, "in_closure", 0), self.ret_ty, self.closed, self.allow_mut)
                    self.in_closure, self.closed, self.allow_mut = saved[0] + 1, self.closed + 1, None
                    self.ret_ty = f.ret_t
                    saved_base, self.closed_base = self.closed_base, self.closed
                    body = f.e.b if f.e.kind == "blockexpr" else Node("block", f.e.line, stmts=[], tail=f.e)
                    inner = self.block(body, self.RET(depth + 2), depth + 2)
                    self.closed_base = saved_base
                    self.in_closure, self.ret_ty, self.closed, self.allow_mut = saved
                    v = self.fresh()
                    return (f"{I}bnd (firstOrRevFindMapM {atom(o)} (fun {lname(f.pat)} =>\n{inner}) {int_atom(lo)} {int_atom(hi)}) fun {v} =>\n" + k(v))
                return self.cg(rg.r, kh, depth)
            return self.cg(rg.l, kl, depth)
        return self.cg(src, ko, depth)
    # ---------------------------------------------------------------------------------------------

    def cg_args(self, args, k, depth):
        def go(i, acc):
            if i == len(args):
                return k(acc)
            return self.cg(args[i], lambda a: go(i + 1, acc + [a]), depth)
        return go(0, [])

    def cg_call(self, e, callee, recv, args, k, depth):
        I = self.ind(depth)
        allargs = ([recv] if recv is not None else []) + list(args)
        if getattr(e, "hole_args", None) is not None:
            # [iteration extension] opaque arguments are dropped, the callee's holes are holes of the caller
            allargs = ([recv] if recv is not None else []) + [a for a in args if strip_ref(a.ty)[0] != "opaque"]
            exts = [hole_lean_names(self.fi.holes)[n - 1] for n in e.hole_args]

            def kh(terms):
                fn = callee.lean_name if callee.ns == self.fi.ns else f"{callee.ns}.{callee.lean_name}"
                call = " ".join([lname(fn)] + [atom(t) for t in terms] + exts)
                if getattr(k, "is_ret", False) and prune(e.ty) == prune(self.ret_ty) and not self.fi.node.mut_self:
                    return f"{I}{call}"
                v = self.fresh()
                return f"{I}bnd ({call}) fun {v} =>\n" + k(v)
            return self.cg_args(allargs, kh, depth)

        def kk(terms):
            fn = callee.lean_name if callee.ns == self.fi.ns else f"{callee.ns}.{callee.lean_name}"
            call = " ".join([lname(fn)] + [atom(t) for t in terms])
            if getattr(k, "is_ret", False) and prune(e.ty) == prune(self.ret_ty) and not self.fi.node.mut_self:
                return f"{I}{call}"
            v = self.fresh()
            return f"{I}bnd ({call}) fun {v} =>\n" + k(v)
        return self.cg_args(allargs, kk, depth)


def atom(term):
    """parenthesise a term unless it is atomic"""
    if re.fullmatch(r"[\w«».]+|\(.*\)|\{.*\}|\"[^\"]*\"", term) and balanced_atom(term):
        return term
    return f"({term})"


def int_atom(term):
    """[iteration extension] an integer term in front of `.toNat` / as an `Int` argument: a literal needs its type"""
    return f"({term} : Int)" if re.fullmatch(r"\d+", term) else atom(term)


def balanced_atom(term):
    if term[0] not in "({":
        return True
    depth = 0
    for i, c in enumerate(term):
        if c in "({":
            depth += 1
        elif c in ")}":
            depth -= 1
            if depth == 0 and i != len(term) - 1:
                return False
    return True


# ------------------------------------------------------------------------------------------------

SKIPPED_SECTIONS = []  # (section, message) of the front ends that gave up in this run
EXCLUDED_FILES = set()  # source files whose targets the MAIN pipeline leaves out in this attempt (see `main`)
MAIN_FILES = (F_EXT, F_DATES, F_FRAME, F_DAY, F_CC, F_RANGE, F_TIME, F_TF, F_DF)


def guarded_section(name, thunk):
    """run one of the later front ends; if it meets a construct outside its subset, leave the section out"""
    try:
        return thunk()
    except Fail as ex:
        SKIPPED_SECTIONS.append((name, str(ex)))
        if name == "schedule":
            SCHED_EXPORT.clear()
        if name == "eval":
            EVAL_EXPORT.clear()
        return [f"-- [{name}] NOT TRANSLATED in this run: {str(ex).replace(chr(10), ' ')}", ""]


def translate(repo, overrides):
    def path_of(rel):
        return overrides.get(rel, os.path.join(repo, rel))

    toks_of, raw_of = {}, {}

    def toks(rel):
        if rel not in toks_of:
            p = path_of(rel)
            try:
                src = open(p, encoding="utf-8").read()
            except OSError as ex:
                fail(rel, f"cannot read {p}: {ex}")
            raw_of[rel] = tokenize(src, rel)
            toks_of[rel] = strip_attrs(raw_of[rel])
        return toks_of[rel]

    enums, enum_src = {}, {}
    enum_derives = {}
    for rel, name in [x for x in ENUMS if x[0] not in EXCLUDED_FILES]:
        enums[name], line = find_enum(toks(rel), rel, name)
        enum_src[name] = f"{rel}:{line}"
        enum_derives[name] = derives_of(raw_of[rel], name)

    penums, penum_src = {}, {}
    for rel, name in [x for x in PENUMS if x[0] not in EXCLUDED_FILES]:
        penums[name], line = find_penum(toks(rel), rel, name, (), set(enums))
        penum_src[name] = f"{rel}:{line}"
        if ("chrono", "Weekday") not in file_uses(toks(rel)) and any(ft == T("ext", "Weekday") for _, tys in penums[name] for ft in tys):
            fail(rel, f"enum {name}: `Weekday` is read as `chrono::Weekday`, but the file does not import it from there")

    structs, struct_src, derefs, derives = {}, {}, set(), {}
    for rel, name in [x for x in STRUCTS if x[0] not in EXCLUDED_FILES]:
        fields, line = find_struct(toks(rel), rel, name, known=set(structs), known_enums=set(enums), known_penums=set(penums))
        structs[name] = fields
        struct_src[name] = f"{rel}:{line}"
        derives[name] = derives_of(raw_of[rel], name)
        if name in enums:
            fail(rel, f"{name} is both a struct and an enum")
        if len(fields) == 1 and fields[0][0] == "0" and fields[0][1][0] == "int" and has_deref_to_field0(toks(rel), name, fields[0][1][1]):
            derefs.add(name)

    derives.update(enum_derives)
    # [dated extension] which `Enum -> integer` conversions the macro of DATED_ENUM_INTO generates, with the expected body
    DATED_ENUM_INTO_OK.clear()
    for ename_, (rel_, macro_) in DATED_ENUM_INTO.items():
        for ity in INT_TYPES:
            try:
                body_ = [x.text for x in expand_macro(toks(rel_), rel_, macro_, ity)]
            except Fail:
                continue
            want_ = f"impl From < {ename_} > for {ity} {{ fn from ( val : {ename_} ) -> Self {{ val as _ }} }}".split()
            DATED_ENUM_INTO_OK[(ename_, ity)] = any(body_[i : i + len(want_)] == want_ for i in range(len(body_)))
    fns, order = {}, []
    for target in [x for x in TARGETS if not any(isinstance(y, str) and y in EXCLUDED_FILES for y in x)]:
        header, tparams, self_t, aliases, assoc = None, {}, None, set(), {}
        if target[0] == "const":
            # `const NAME: TYPE = EXPR;` inside `impl TYPE`: a definition without parameters (Rust evaluates it at
            # compile time, where a panic is a compile error; here the panic outcome is explicit and proved unreachable)
            _, rel, impl_ty, names = target
            tk = toks(rel)
            for n in names:
                p = Parser(tk, rel, set(structs), uses=std_uses(tk), enums=set(enums))
                p.i = find_const(tk, rel, impl_ty, n)
                line = p.eat("const").line
                p.ident()
                p.eat(":")
                ret = p.type_()
                p.eat("=")
                body = p.expr()
                p.eat(";")
                node = Node("fn", line, name=n, params=[], has_self=False, mut_self=False, ret=ret,
                            body=Node("block", line, stmts=[], tail=body), tparams={})
                key = (impl_ty, n)
                if key in fns:
                    fail(f"{rel}:{line}", f"{impl_ty}::{n} is defined twice")
                fi = FnInfo(key, impl_ty, n, node, impl_ty, rel, uses=std_uses(tk))
                fi.is_const = True
                fi.derives = derives
                fns[key] = fi
                order.append(key)
            continue
        if target[0] == "closure":
            _, rel, outer, adaptor, occ, pty, rty, ns, lean_name = target
            tk = toks(rel)
            uses = std_uses(tk)
            o = find_impl_fns(tk, rel, None, None, [outer])[outer]
            j = o
            while tk[j].text != "{" or False:
                if tk[j].text == "(":
                    j = matching(tk, j)
                elif tk[j].kind == "eof":
                    fail(rel, f"fn {outer}: no body")
                j += 1
            end = matching(tk, j)
            texts = [x.text for x in tk]
            hits = [i for i in range(j, end) if texts[i : i + 4] == [".", adaptor, "(", "|"] and tk[i + 4].kind == "id" and texts[i + 5] == "|"]
            if len(hits) <= occ:
                fail(rel, f"fn {outer}: closure argument of `.{adaptor}(..)` number {occ} not found")
            i = hits[occ]
            p = Parser(tk, rel, set(structs), uses=uses, enums=set(enums))
            p.i = i + 6
            body = p.expr()
            if p.i != matching(tk, i + 2):
                fail(p.where(), f"the closure is not the only argument of `.{adaptor}(..)`")
            blk = body.b if body.kind == "blockexpr" else Node("block", body.line, stmts=[], tail=body)
            node = Node("fn", tk[i + 3].line, name=lean_name, params=[(texts[i + 4], parse_type_str(pty, structs, enums))], has_self=False,
                        mut_self=False, ret=parse_type_str(rty, structs, enums), body=blk, tparams={})
            key = (ns, lean_name)
            if key in fns:
                fail(rel, f"{ns}.{lean_name} is defined twice")
            fi = FnInfo(key, ns, lean_name, node, None, rel, uses=uses)
            fi.derives = derives
            fi.closure_of = (outer, adaptor)
            fns[key] = fi
            order.append(key)
            continue
        if target[0] == "arm":
            _, rel, hdr, fname_, erel, ename, vname, subpats, ns, lean_name = target
            tk = toks(rel)
            uses = std_uses(tk)
            for alias, path in ALIASES.get(rel, {}).items():
                if has_use_as(tk, path, alias):
                    aliases.add(alias)
            o = find_impl_fns(tk, rel, hdr.split()[-1], None, [fname_], hdr.split())[fname_]
            syn = arm_function(tk, rel, o, lean_name, toks(erel), erel, ename, vname, subpats, aliases)
            modelled = (ns, lean_name) in CHRONO_FNS
            p = Parser(syn, rel, set(structs), uses=uses | std_uses(toks(erel)), enums=set(enums), aliases=aliases, modelled=modelled, penums=set(penums))
            node = p.fn()
            key = (ns, lean_name)
            if key in fns:
                fail(rel, f"{ns}.{lean_name} is defined twice")
            fi = FnInfo(key, ns, lean_name, node, None, rel, uses=uses | std_uses(toks(erel)))
            fi.derives = derives
            fi.modelled = modelled
            fi.arm_of = (fname_, f"{ename}::{vname}", subpats)
            fi.local_fns = set(find_local_fns(tk))
            fns[key] = fi
            order.append(key)
            continue
        if target[0] == "macro":
            _, rel, macro, arg, hdr, ns, names = target
            header = hdr.split()
            tk = expand_macro(toks(rel), rel, macro, arg)
            uses = std_uses(toks(rel))
            impl_ty, trait = header[-1], None
            if impl_ty in enums:
                self_t = T("enum", impl_ty)
            elif impl_ty not in structs:
                fail(rel, f"impl header `{hdr}`: {impl_ty} is not a translated type")
        elif target[0].startswith("impl "):
            # a generic impl: `impl < generics > [Trait [< .. >] for] Type`, the header given in full
            hdr, rel, ns, names = target
            header = hdr.split()
            tk = toks(rel)
            uses = std_uses(tk)
            for alias, path in ALIASES.get(rel, {}).items():
                if alias in header:
                    if not has_use_as(tk, path, alias):
                        fail(rel, f"`{alias}::` is read as `{path}::`, but the file has no `use {path} as {alias};`")
                    aliases.add(alias)
            hp = Parser([Tok("op" if not re.match(r"\w", x) else "id", x, 0) for x in header] + [Tok("eof", "", 0)], rel + " (TARGETS)", set(structs), uses=uses, enums=set(enums), aliases=aliases)
            hp.eat("impl")
            if hp.at("<"):
                hp.generics()
            if "for" in header:
                hp.i = header.index("for") + 1
            self_t = hp.type_()
            if hp.peek().kind != "eof":
                fail(rel, f"impl header `{hdr}`: unexpected `{hp.peek().text}`")
            tparams = hp.tparams
            impl_ty = type_head(self_t)
            if impl_ty is None:
                fail(rel, f"impl header `{hdr}`: the type is outside the translated subset")
            trait = None
        else:
            rel, impl_ty, trait, names = target
            tk = toks(rel)
            uses = std_uses(tk)
            ns = impl_ty if impl_ty else FREE_NS[rel]
            if impl_ty in enums:
                self_t = T("enum", impl_ty)
        where = find_impl_fns(tk, rel, impl_ty, trait, names, header)
        if header and target[0] != "macro":
            # associated types of the impl: `type NAME [<generics>] = TYPE;` (for `-> Self::NAME<..>`)
            texts = [x.text for x in tk]
            hb = [i for i in range(len(texts) - len(header)) if texts[i : i + len(header) + 1] == header + ["{"]]
            for b in hb:
                o = b + len(header)
                end, depth, i = matching(tk, o), 0, b + len(header) + 1
                while i < end:
                    if texts[i] == "{":
                        depth += 1
                    elif texts[i] == "}":
                        depth -= 1
                    elif depth == 0 and texts[i] == "type" and tk[i + 1].kind == "id":
                        ap = Parser(tk, rel, set(structs), tparams=tparams, uses=uses, enums=set(enums), aliases=aliases)
                        ap.i = i + 2
                        ap.skip_generic_args()
                        if ap.at("="):
                            ap.i += 1
                            try:
                                assoc[texts[i + 1]] = ap.type_()
                            except Fail:
                                pass  # an associated type outside the subset: an error only if a translated function uses it
                    i += 1
        for n in names:
            modelled = (impl_ty, n) in CHRONO_FNS
            if modelled:
                for alias, path in ALIASES.get(rel, {}).items():
                    if has_use_as(tk, path, alias):
                        aliases.add(alias)
            p = Parser(tk, rel, set(structs), tparams=tparams, uses=uses, enums=set(enums), aliases=aliases, assoc=assoc,
                       modelled=modelled, penums=set(penums))
            p.i = where[n]
            p.extval = rel in EXTVAL_FILES  # [iteration extension]
            node = p.fn()
            if node.name != n:
                fail(f"{rel}:{node.line}", f"expected fn {n}")
            key = (impl_ty, n)
            if key in fns:
                fail(f"{rel}:{node.line}", f"{impl_ty}::{n} is defined twice (inherent and trait impl)")
            fi = FnInfo(key, ns, n, node, impl_ty, rel, self_t=self_t, uses=uses)
            fi.derives = derives
            fi.modelled = modelled
            fns[key] = fi
            order.append(key)
    for fi in fns.values():
        fi.penums = penums

    for key, (src, how) in CLOSURE_ELEM.items():
        if key in fns:
            if src not in fns:
                fail(fns[key].fname, f"{key[1]}: {src[1]} is not translated")
            want = prune(fns[src].conc(fns[src].node.ret))
            if how == "some":
                if want[0] != "opt":
                    fail(fns[key].fname, f"{key[1]}: {src[1]} does not return an Option")
                want = want[1]
            have = prune(fns[key].node.params[0][1])
            if have != want:
                fail(f"{fns[key].fname}:{fns[key].node.line}", f"the closure's parameter is assumed to be {show(have)}, but {src[0]}::{src[1]} yields {show(want)}")
    for key in order:
        fns[key].imports = file_uses(toks(fns[key].fname))
        Infer(fns[key], structs, derefs, fns, enums).run()

    # dependency order (no recursion)
    done, emitted = set(), []

    def visit(key, stack):
        if key in done:
            return
        if key in stack:
            fail(fns[key].fname, f"recursion through {key[1]} is outside the translated subset")
        for c in fns[key].calls:
            visit(c, stack + [key])
        done.add(key)
        emitted.append(key)
    for key in order:
        visit(key, [])

    files = sorted({fi.fname for fi in fns.values()} | {rel for rel, _ in STRUCTS} | {rel for rel, _ in ENUMS})
    L = ["/-", "GENERATED by translators/rs2lean.py from"]
    L += [f"  {f}" for f in files]
    L += ["— do not edit.",
          "One definition per Rust function, in Rust's evaluation order, over OH/Model/RustInt.lean: values are `Int`s",
          "whose machine type the translator tracked; `add/sub/mul/div/rem/shl/shr .T \"fn:line\"` are the checked",
          "operations of type T (overflow / zero divisor = explicit `.error` outcome), `Int.tdiv/Int.tmod` are `/` `%` by",
          "a non-zero literal (cannot fail), `wrap .T` is `as T`, `tryInto .T` is `try_into()`, `T::from`/`into()` are",
          "value-preserving and leave no trace, `?` on an Option is the `none => .ok none` arm, `expect`/`assert!` the",
          "`.error (.panic ..)` arm.  A `&mut self` method is `self → args → R (result × self)` (writes rebind `self`), an",
          "array `[T; N]` a `Vector T N` whose indexing has the `index out of bounds` panic outcome, a generic parameter",
          "`T: PartialOrd/Ord` a type parameter with decidable `≤` `<`, `&T` is `T`, `a..b` / `a..=b` are `Range.mk` /",
          "`RangeInclusive.mk`, `max`/`min` are `cmpMax`/`cmpMin`.  OH/Props/Arith*.lean ties these definitions to the",
          "hand-written models.",
          "In the functions of the translator's table CHRONO_FNS chrono's `NaiveDate` / `Weekday` / `TimeDelta` are the",
          "values of the calendar model (day number, days from Monday, whole days: `Int`s) and the chrono calls are the",
          "functions `Chrono.*` of OH/Model/RustChrono.lean, which state their meaning over OH/Model/Calendar.lean.",
          "-/", "import OH.Model.RustInt", "import OH.Model.RustChrono", "import OH.Model.RustDated", "namespace OH.Generated.Arith", "open OH.Model.RustInt",
          "open OH.Model.RustChrono", ""]
    L.insert(L.index("import OH.Model.RustInt") + 1, "import OH.Model.RustIter")  # [iteration extension]
    L.insert(L.index("import OH.Model.RustDated") + 1, "import OH.Model.RustDated3")  # [dated3 extension]
    used_structs = []

    used_enums = []
    used_penums = []

    def use_struct(name):
        if name in used_structs:
            return
        for _, ft in structs[name]:
            if ft[0] == "array" and ft[1][0] == "struct":
                use_struct(ft[1][1])
            if ft[0] == "struct":
                use_struct(ft[1])
            if ft[0] in ("range", "rangeincl") and ft[1][0] == "struct":
                use_struct(ft[1][1])
            if ft[0] == "enum" and ft[1] not in used_enums:
                used_enums.append(ft[1])
            if ft[0] == "penum" and ft[1] not in used_penums:
                used_penums.append(ft[1])
        used_structs.append(name)
    for key in emitted:
        fi = fns[key]
        if fi.self_ty in structs:
            use_struct(fi.self_ty)
    for key in emitted:
        st = fns[key].self_t
        if st is not None and st[0] == "enum" and st[1] not in used_enums:
            used_enums.append(st[1])
    for key in emitted:  # [dated extension] payload enums that are parameter types
        for _, pt_ in fns[key].node.params:
            t_ = strip_ref(fns[key].conc(pt_))
            if isinstance(t_, tuple) and t_[0] == "penum" and t_[1] not in used_penums:
                used_penums.append(t_[1])
    for name in used_enums:
        L.append(f"/-- `enum {name}` ({enum_src[name]}), fieldless; `{name}.discr` is the discriminant (`self as <integer type>`) -/")
        L.append(f"inductive {name} where")
        L.append("  " + " ".join(f"| {lname(v)}" for v, _ in enums[name]))
        L.append("  deriving DecidableEq, Repr")
        L.append("")
        L.append(f"def {name}.discr : {name} → Int")
        for v, d in enums[name]:
            L.append(f"  | .{lname(v)} => {d}")
        L.append("")
        if any(name in fns[key].ordered_structs for key in emitted):
            L.append(f"/-- `#[derive(PartialOrd, Ord)]` on the fieldless `{name}`: the order of the discriminants -/")
            L.append(f"instance : LT {name} := ⟨fun a b => a.discr < b.discr⟩")
            L.append(f"instance : LE {name} := ⟨fun a b => a.discr ≤ b.discr⟩")
            L.append(f"instance : DecidableLT {name} := fun a b => inferInstanceAs (Decidable (a.discr < b.discr))")
            L.append(f"instance : DecidableLE {name} := fun a b => inferInstanceAs (Decidable (a.discr ≤ b.discr))")
            L.append("")
    for name in used_penums:
        L.append(f"/-- `enum {name}` ({penum_src[name]}): unit and tuple variants -/")
        L.append(f"inductive {name} where")
        for v, tys in penums[name]:
            fn_ = DATED_PENUM_FIELDS.get((name, v))  # [dated extension] struct variants: arguments named after the fields
            L.append(f"  | {lname(v)}" + "".join(f" ({lname(fn_[k]) if fn_ else 'a' + str(k)} : {lty(ft)})" for k, ft in enumerate(tys)) + "  -- " + (", ".join(show(ft) for ft in tys) or "unit"))
        L.append("  deriving DecidableEq, Repr")
        L.append("")
    for name in used_structs:
        L.append(f"/-- `struct {name}` ({struct_src[name]}) -/")
        L.append(f"structure {name} where")
        for fn, ft in structs[name]:
            L.append(f"  {field_name(fn)} : {lty(ft)}  -- {show(ft)}")
        L.append("  deriving DecidableEq, Repr")
        L.append("")
        if any(name in fns[key].ordered_structs for key in emitted):
            # `#[derive(PartialOrd, Ord)]`: the lexicographic order of the fields, in declaration order
            fs = [field_name(fn) for fn, _ in structs[name]]

            def lex(fs, last):
                if len(fs) == 1:
                    return f"a.{fs[0]} {last} b.{fs[0]}"
                return f"a.{fs[0]} < b.{fs[0]} ∨ (a.{fs[0]} = b.{fs[0]} ∧ ({lex(fs[1:], last)}))"
            L.append(f"/-- `#[derive(PartialOrd, Ord)]` on `{name}`: lexicographic, fields in declaration order -/")
            L.append(f"instance : LT {name} := ⟨fun a b => {lex(fs, '<')}⟩")
            L.append(f"instance : LE {name} := ⟨fun a b => {lex(fs, '≤')}⟩")
            L.append(f"instance : DecidableLT {name} := fun a b => inferInstanceAs (Decidable ({lex(fs, '<')}))")
            L.append(f"instance : DecidableLE {name} := fun a b => inferInstanceAs (Decidable ({lex(fs, '≤')}))")
            L.append("")
    cur = None
    for key in emitted:
        fi = fns[key]
        if fi.ns != cur:
            if cur is not None:
                L.append(f"end {cur}")
                L.append("")
            L.append(f"namespace {fi.ns}")
            L.append("")
            cur = fi.ns
        f = fi.node
        sig = ", ".join((["&mut self" if f.mut_self else "&self" if getattr(f, "ref_self", False) else "self"] if f.has_self else []) + [f"{pn}: {show(fi.conc(pt))}" for pn, pt in f.params])
        owner = (fi.self_ty + "::") if fi.self_ty else ""
        rshow = show(fi.conc(f.ret))
        if f.tparams:
            owner = "<" + ", ".join(f"{a}: {' + '.join(sorted(b))}" if b else a for a, b in f.tparams.items()) + "> " + owner
        if getattr(fi, "closure_of", None):
            L.append(f"/-- the closure `|{f.params[0][0]}| ..` passed to `.{fi.closure_of[1]}(..)` in `{fi.closure_of[0]}` ({fi.fname}:{f.line}), "
                     f"`{f.params[0][0]}: {show(f.params[0][1])}` → `{rshow}` (types as inferred by rustc: an assumption) -/")
        elif fi.is_const:
            L.append(f"/-- `const {owner}{f.name}: {rshow}` ({fi.fname}:{f.line}) -/")
        elif fi.holes:
            hs = ", ".join((f"{hole_lean_names(fi.holes)[n]} = the result of the getter `{hn[1:]}()` (every call)" if hn.startswith("@") else
                            f"{hole_lean_names(fi.holes)[n]} = the result of the untranslated call `.{hn}(..)` at line {hl}") for n, (hn, hl, _) in enumerate(fi.holes))
            L.append(f"/-- `{owner}{f.name}({sig}) -> {rshow}` ({fi.fname}:{f.line}); {hs} -/")
        else:
            L.append(f"/-- `{owner}{f.name}({sig}) -> {rshow}` ({fi.fname}:{f.line}) -/")
        L.append(Gen(fi, structs).gen_fn())
        L.append("")
    if cur is not None:
        L.append(f"end {cur}")
        L.append("")
    # The later front ends are translated section by section: a construct outside the subset in ONE of them leaves that
    # section out (a comment says why) instead of the whole module, so that only the theorems about that section stop
    # building — a rewrite of schedule.rs must not take the tie of ExtendedTime or CompactCalendar with it.  The main
    # pipeline above is one unit (its functions call each other): a failure there is a failure of the translator.
    L += guarded_section("seq", lambda: seq_section(toks))  # third extension: sequences (Vec, iterators, loops, from_fn, library calls as EXTERNs)
    L += guarded_section("schedule", lambda: sched_section(toks, lambda rel: raw_of[rel]))  # [schedule extension] fourth increment: schedule.rs
    L += guarded_section("dated2", lambda: dated2_section(toks))  # [dated2 extension] fifth increment: the interval consumers of date_filter.rs
    L += guarded_section("dated3", lambda: dated3_section(toks))  # [dated3 extension] sixth increment: single_interval_from_bounds, the `Date` arms of MonthdayRange, intervals_from_bounds
    L += guarded_section("week", lambda: week_section(toks, lambda rel: raw_of[rel]))  # [week extension] seventh increment: WeekRange::next_change_hint
    L += guarded_section("week-dates", lambda: week_dates_section(toks))  # [week extension] count_days_in_month
    L += guarded_section("weekday", lambda: weekday_section(toks, lambda rel: raw_of[rel]))  # [weekday extension] eighth increment: WeekDayRange::filter
    L += guarded_section("weekday-hint", lambda: weekday_hint_section(toks, lambda rel: raw_of[rel]))  # [weekday extension] WeekDayRange::next_change_hint
    L += guarded_section("eval", lambda: eval_section(toks, lambda rel: raw_of[rel]))  # [eval extension] fifth increment: opening_hours.rs
    L += guarded_section("eval2", lambda: eval2_section(toks, lambda rel: raw_of[rel]))  # [eval2 extension] sixth increment: next_change_hint
    L += guarded_section("eval2-day", lambda: eval2_day_section(toks, lambda rel: raw_of[rel]))  # [eval2 extension] DaySelector::filter / next_change_hint
    toks.raw = lambda rel: (toks(rel), raw_of[rel])[1]  # [tz extension]
    L += guarded_section("tz", lambda: tz_section(toks, lambda rel: raw_of[rel]))  # [tz extension] fifth increment: localization/localize.rs
    L += guarded_section("tz-pipe", lambda: tz_pipe_section(toks))  # [tz extension] the localisation pipeline of opening_hours.rs
    L += guarded_section("iter", lambda: iter_section(toks))  # [iter extension] seventh increment: state / is_open / is_closed / is_unknown
    L += guarded_section("iter-next", lambda: iter_tdi_section(toks))  # [iter extension] TimeDomainIterator::next
    L += guarded_section("iter-new", lambda: iter_tdi_new_section(toks))  # [iter extension] TimeDomainIterator::new
    L += guarded_section("timesel", lambda: timesel_section(toks))  # [timesel extension] eighth increment: is_00_24, is_immutable_full_day
    L.insert(L.index("import OH.Model.RustInt") + 1, "import OH.Model.RustTz")  # [tz extension]
    L.append("end OH.Generated.Arith")
    return "\n".join(L).replace("import OH.Model.RustInt\n", "import OH.Model.RustInt\nimport OH.Model.RustSeq\nimport OH.Model.RustVec\n", 1) + "\n"


# ------------------------------------------------------------------------------------------------
# third extension: sequences (DESIGN §8.9).  `Vec<T>` / a consumed `vec.into_iter()` as a `List`, `while let Some(x) =
# it.next()` as structural recursion over that list, `std::iter::from_fn(move || ..)` as `fromFn fuel ..` with the
# captured state passed explicitly, `Option::replace/take`, `if let Some(ref mut x) = opt` as a write-through alias,
# library calls on vectors (`sort_unstable_by`, `sort_unstable`, `dedup`, `binary_search`) as EXTERNs: the library
# FUNCTION is a parameter `ext_<name>` of the generated definition, its contract a named hypothesis of the theorems.  Support library:
# OH/Model/RustSeq.lean.  A separate small front end (`SeqParser` extends the expression grammar of `Parser` by
# statements with `mut` state, `SeqGen` is a typed CPS generator); the same rule: anything else is an error naming
# file:line.

F_SV = "opening-hours-syntax/src/sorted_vec.rs"
# (file, impl header in full or None for a free function, Lean namespace, Rust name, Lean name)
SEQ_TARGETS = [
    (F_RANGE, None, "RangeUtils", "ranges_union", "ranges_union"),
    (F_SV, "impl < T : Ord > UniqueSortedVec < T >", "UniqueSortedVec", "contains", "contains"),
    (F_SV, "impl < T : Ord > UniqueSortedVec < T >", "UniqueSortedVec", "find_first_following", "find_first_following"),
    (F_SV, "impl < T : Ord > From < Vec < T >> for UniqueSortedVec < T >", "UniqueSortedVec", "from", "from_vec"),
]
# generic newtypes over a vector, `struct NAME<T>(Vec<T>);` (checked literally)
SEQ_STRUCTS = {"UniqueSortedVec": F_SV}
# untranslated library calls: method -> what the generated doc comment says about the parameter
SEQ_EXTERNS = {
    "sort_unstable_by": "the library function `v ↦ v after v.sort_unstable_by(|a, b| a.{key}.cmp(&b.{key}))` (contract: a permutation sorted by `{key}`)",
    "sort_unstable": "the library function `v ↦ v after v.sort_unstable()` (contract: a sorted permutation)",
    "dedup": "the library function `v ↦ v after v.dedup()` (contract: consecutive equal elements removed)",
    "binary_search": "the library function `(v, x) ↦ v.binary_search(x)` (contract: `slice::binary_search`)",
}
UNIT = T("unit")


def seq_show(t):
    if t is None:
        return "_"
    k = t[0]
    if k in ("list", "iter", "intoiter", "iterret"):
        return {"list": "Vec", "iter": "IntoIter", "intoiter": "impl IntoIterator", "iterret": "impl Iterator"}[k] + f"<{seq_show(t[1])}>"
    if k == "opt":
        return f"Option<{seq_show(t[1])}>"
    if k == "range":
        return f"Range<{seq_show(t[1])}>"
    if k == "ref":
        return seq_show(t[1])
    if k == "vstruct":
        return f"{t[1]}<{seq_show(t[2])}>"
    if k == "res2":
        return "Result<usize, usize>"
    if k == "unit":
        return "()"
    return show(t)


def seq_lty(t, top=True):
    k = t[0]
    if k == "ref":
        return seq_lty(t[1], top)  # a shared reference to a value is the value
    if k in ("list", "iter", "intoiter", "iterret"):
        s = f"List {seq_lty(t[1], False)}"
    elif k == "opt":
        s = f"Option {seq_lty(t[1], False)}"
    elif k == "range":
        s = f"Range {seq_lty(t[1], False)}"
    elif k == "vstruct":
        s = f"{t[1]} {seq_lty(t[2], False)}"
    elif k == "res2":
        s = "Except Int Int"
    elif k == "unit":
        return "Unit"
    elif k == "bool":
        return "Bool"
    elif k == "int":
        return "Int"
    elif k == "tparam":
        return t[1]
    else:
        raise AssertionError(t)
    return s if top else f"({s})"


def seq_unref(t):
    while t is not None and t[0] == "ref":
        t = t[1]
    return t


def seq_same(a, b):
    """equality of types up to references and the wildcard `_` (None)"""
    a, b = seq_unref(a), seq_unref(b)
    if a is None or b is None:
        return True
    if a[0] != b[0] or len(a) != len(b):
        return False
    return all(seq_same(x, y) if isinstance(x, tuple) or x is None else x == y for x, y in zip(a[1:], b[1:]))


class SeqParser(Parser):
    """The expression grammar of `Parser`, plus: types `Vec<T>`, `_`, `impl IntoIterator<Item = T>`, `impl Iterator<Item = T>`,
    `NAME<T>` for the newtypes of SEQ_STRUCTS; closures `|a, b| e` / `move || { .. }`; statements
        let [mut] x [: T] = e;   let (Ok(i) | Err(i)) = e;   place = e;   e;   return e;
        if c { .. } [else { .. }]   if let Some([ref [mut]] x) = e { .. } else { .. }   while let Some(x) = it.next() { .. }
    (blocks may be without a value)."""

    def type_(self):
        tk = self.peek()
        if tk.text == "_":
            self.i += 1
            return None
        if tk.text == "&":
            self.i += 1
            if self.peek().kind == "life":
                self.i += 1
            if self.at("mut"):
                fail(self.where(), "`&mut` types are outside the translated subset")
            return T("ref", self.type_())
        if tk.text == "Vec":
            self.i += 1
            self.eat("<")
            inner = self.type_()
            self.close_angle()
            return T("list", inner)
        if tk.text == "Option":
            self.i += 1
            self.eat("<")
            inner = self.type_()
            self.close_angle()
            return T("opt", inner)
        if tk.text in ("Range",):
            self.i += 1
            self.need_use("Range", tk)
            self.eat("<")
            inner = self.type_()
            self.close_angle()
            return T("range", inner)
        if tk.text == "impl":
            self.i += 1
            tr = self.ident()
            if tr not in ("IntoIterator", "Iterator"):
                fail(self.where(tk), f"`impl {tr}` is outside the translated subset")
            self.eat("<")
            self.eat("Item")
            self.eat("=")
            inner = self.type_()
            self.close_angle()
            return T("intoiter" if tr == "IntoIterator" else "iterret", inner)
        if tk.text in SEQ_STRUCTS:
            self.i += 1
            self.eat("<")
            inner = self.type_()
            self.close_angle()
            return T("vstruct", tk.text, inner)
        if tk.text == "Self":
            self.i += 1
            if getattr(self, "self_t", None) is None:
                fail(self.where(tk), "`Self` outside an impl")
            return self.self_t
        if tk.text == "bool":
            self.i += 1
            return BOOL
        if tk.text == "usize":
            self.i += 1
            return tint("usize")
        if tk.kind == "id" and tk.text in self.tparams and self.tparams[tk.text] is not None:
            self.i += 1
            return T("tparam", tk.text)
        fail(self.where(tk), f"type `{tk.text}` is outside the translated subset (sequence functions)")

    def seq_fn(self):
        line = self.eat("fn").line
        name = self.ident()
        if self.at("<"):
            self.generics()
        self.eat("(")
        params, has_self = [], False
        while not self.at(")"):
            if self.at("&") and self.peek(1).text == "self":
                self.i += 2
                has_self = True
            elif self.at("self"):
                self.i += 1
                has_self = True
            elif self.at("&") or (self.at("mut") and self.peek(1).text == "self"):
                fail(self.where(), "this receiver is outside the translated subset")
            else:
                mut = False
                if self.at("mut"):
                    self.i += 1
                    mut = True  # an owned parameter the body rebinds
                pn = self.ident()
                self.eat(":")
                params.append((pn, self.type_(), mut))
            if not self.at(")"):
                self.eat(",")
        self.eat(")")
        self.eat("->")
        ret = self.type_()
        if self.at("where"):
            fail(self.where(), "`where` clauses are outside the translated subset (sequence functions)")
        body = self.block()
        return Node("fn", line, name=name, params=params, has_self=has_self, ret=ret, body=body, tparams=dict(self.tparams))

    def block(self):
        line = self.eat("{").line
        stmts, tail = [], None
        while not self.at("}"):
            if tail is not None:
                fail(self.where(), "statement after the tail expression")
            tk = self.peek()
            if self.at("let"):
                stmts.append(self.seq_let())
            elif self.at("while"):
                stmts.append(self.seq_while())
            elif self.at("return"):
                self.i += 1
                e = self.expr()
                if not self.at("}"):
                    self.eat(";")
                stmts.append(Node("ret", tk.line, e=e))
                if not self.at("}"):
                    fail(self.where(), "statement after `return`")
            elif self.at("if"):
                e = self.primary(False)
                if self.at("}"):
                    tail = e
                else:
                    if self.at(";"):
                        self.i += 1
                    elif self.at(".") or self.at("?"):
                        fail(self.where(), "a method call on an `if` expression is outside the translated subset")
                    stmts.append(Node("exprstmt", e.line, e=e))
            else:
                e = self.expr()
                t2 = self.peek()
                if t2.kind == "op" and t2.text == "=":
                    self.i += 1
                    rhs = self.expr()
                    self.eat(";")
                    stmts.append(Node("assign", t2.line, place=e, e=rhs))
                elif t2.kind == "op" and t2.text in self.ASSIGN:
                    fail(self.where(), f"`{t2.text}` is outside the translated subset (sequence functions)")
                elif self.at(";"):
                    self.i += 1
                    stmts.append(Node("exprstmt", e.line, e=e))
                else:
                    tail = e
        self.eat("}")
        return Node("block", line, stmts=stmts, tail=tail)

    def seq_let(self):
        line = self.eat("let").line
        if self.at("("):
            # exactly `let (Ok(i) | Err(i)) = e;`
            self.i += 1
            self.eat("Ok")
            self.eat("(")
            a = self.ident()
            self.eat(")")
            self.eat("|")
            self.eat("Err")
            self.eat("(")
            b = self.ident()
            self.eat(")")
            self.eat(")")
            if a != b:
                fail(f"{self.f}:{line}", "the two alternatives of the or-pattern bind different names")
            self.eat("=")
            e = self.expr()
            self.eat(";")
            return Node("leteither", line, name=a, e=e)
        mut = False
        if self.at("mut"):
            self.i += 1
            mut = True
        tk = self.peek()
        if tk.kind != "id" or tk.text in ("Some", "Ok", "Err", "ref") or self.peek(1).text in ("(", "{", "::", "@", "["):
            fail(self.where(), "this `let` pattern is outside the translated subset")
        name = self.ident()
        ann, has_ann = None, False
        if self.at(":"):
            self.i += 1
            ann, has_ann = self.type_(), True
        self.eat("=")
        e = self.expr()
        if self.at("else"):
            fail(self.where(), "`let .. else` is outside the translated subset (sequence functions)")
        self.eat(";")
        return Node("let", line, name=name, ann=ann, has_ann=has_ann, e=e, mut=mut)

    def some_pattern(self):
        """`Some([ref [mut]] NAME)` -> (name, by_ref, mut)"""
        self.eat("Some")
        self.eat("(")
        by_ref = mut = False
        if self.at("ref"):
            self.i += 1
            by_ref = True
            if self.at("mut"):
                self.i += 1
                mut = True
        elif self.at("mut"):
            fail(self.where(), "a `mut` binding in a pattern is outside the translated subset")
        name = self.ident()
        self.eat(")")
        return name, by_ref, mut

    def seq_while(self):
        """exactly `while let Some(NAME) = IT.next() { .. }`"""
        line = self.eat("while").line
        if not self.at("let"):
            fail(self.where(), "a `while` loop that is not `while let Some(x) = it.next()` is outside the translated subset")
        self.i += 1
        name, by_ref, _ = self.some_pattern()
        if by_ref:
            fail(self.where(), "`ref` in a `while let` pattern is outside the translated subset")
        self.eat("=")
        it = self.peek()
        itn = self.ident()
        self.eat(".")
        m = self.ident()
        if m != "next":
            fail(self.where(it), f"`while let Some(..) = {itn}.{m}()`: only `.next()` of a consumed vector iterator is translated (the loop is a structural recursion over what is left of it)")
        self.eat("(")
        self.eat(")")
        body = self.block()
        return Node("whilelet", line, name=name, it=itn, body=body)

    def primary(self, nostruct):
        tk = self.peek()
        if tk.kind == "id" and tk.text == "move":
            self.i += 1
            if not (self.at("||") or self.at("|")):
                fail(self.where(), "`move` not followed by a closure")
            tk2 = self.peek()
            return self.closure(tk2, True)
        if tk.kind == "op" and tk.text in ("|", "||"):
            return self.closure(tk, False)
        if tk.kind == "id" and tk.text == "if":
            self.i += 1
            if self.at("let"):
                self.i += 1
                name, by_ref, mut = self.some_pattern()
                self.eat("=")
                scrut = self.expr(nostruct=True)
                a = self.block()
                b = None
                if self.at("else"):
                    self.i += 1
                    if self.at("if"):
                        fail(self.where(), "`else if` after `if let` is outside the translated subset")
                    b = self.block()
                return Node("iflet", tk.line, name=name, by_ref=by_ref, mut=mut, scrut=scrut, a=a, b=b)
            c = self.expr(nostruct=True)
            a = self.block()
            b = None
            if self.at("else"):
                self.i += 1
                if self.at("if"):
                    bl = self.peek().line
                    b = Node("block", bl, stmts=[], tail=self.primary(nostruct))
                else:
                    b = self.block()
            return Node("if", tk.line, c=c, a=a, b=b)
        if tk.kind == "id" and tk.text == "match":
            fail(self.where(), "`match` is outside the translated subset (sequence functions)")
        return Parser.primary(self, nostruct)

    def closure(self, tk, move):
        params = []
        if self.at("||"):
            self.i += 1
        else:
            self.eat("|")
            while not self.at("|"):
                ptk = self.peek()
                if ptk.kind != "id" or ptk.text in ("mut", "ref"):
                    fail(self.where(), "this closure parameter is outside the translated subset")
                params.append(self.ident())
                if self.at(":"):
                    fail(self.where(), "annotated closure parameters are outside the translated subset")
                if not self.at("|"):
                    self.eat(",")
            self.eat("|")
        if self.at("{"):
            body = self.block()
        else:
            bl = self.peek().line
            body = Node("block", bl, stmts=[], tail=self.expr())
        return Node("closure", tk.line, params=params, body=body, move=move)


def seq_idents(node, out):
    """every variable name mentioned below `node`"""
    if isinstance(node, Node):
        if node.kind == "var":
            out.add(node.name)
        if node.kind == "whilelet":
            out.add(node.it)
        for v in node.__dict__.values():
            seq_idents(v, out)
    elif isinstance(node, (list, tuple)):
        for v in node:
            seq_idents(v, out)


class SeqVar:
    def __init__(self, ty, mut=False, alias=None):
        self.ty, self.mut, self.alias = ty, mut, alias  # alias: the `Option` variable this is the `Some` payload of


class SeqFrame:
    """where a `return` goes: kind "fn" (`.ok v`), "closure" (`.ok (v, state)`), "loop" (`.ok (.ret v state)`)"""

    def __init__(self, kind, state=(), ret_ty=None, parent=None):
        self.kind, self.state, self.ret_ty, self.parent = kind, list(state), ret_ty, parent


def seq_tuple(names):
    names = [lname(n) for n in names]
    if not names:
        return "()"
    return names[0] if len(names) == 1 else "(" + ", ".join(names) + ")"


def seq_tuple_ty(tys):
    if not tys:
        return "Unit"
    return " × ".join(seq_lty(t, False) if len(tys) > 1 else seq_lty(t) for t in tys)


class SeqGen:
    def __init__(self, fname, ns, lean_name, node, self_t, imports):
        self.f, self.ns, self.lean_name, self.node, self.self_t, self.imports = fname, ns, lean_name, node, self_t, imports
        self.n = 0
        self.externs = []  # (type, description)
        self.aux = []  # auxiliary definitions (loops, closures), in order
        self.nloop = self.nclosure = 0
        self.ord_ops = False
        self.fuel = False

    def w(self, node):
        return f"{self.f}:{node.line}"

    def fresh(self):
        self.n += 1
        return f"tmp{self.n}"

    def binders(self):
        out = []
        for tp, b in self.node.tparams.items():
            if b is None:
                fail(self.w(self.node), f"generic parameter `{tp}` with a bound other than PartialOrd / Ord")
            if tp in LEAN_KEYWORDS or not re.fullmatch(r"[A-Z][A-Za-z0-9]*", tp):
                fail(self.w(self.node), f"generic parameter name {tp}")
            out.append(f"{{{tp} : Type}}" + (f" [LE {tp}] [LT {tp}] [DecidableLE {tp}] [DecidableLT {tp}]" if self.ord_ops else ""))
        return " ".join(out)

    # -- the top-level function
    def gen(self):
        f = self.node
        env, params = {}, []
        if f.has_self:
            if self.self_t is None:
                fail(self.w(f), "`self` outside an impl")
            env["self"] = SeqVar(self.self_t)
            params.append(("self", self.self_t))
        for pn, pt, mut in f.params:
            if re.fullmatch(r"tmp\d+|ext_\w+|fuel", pn):
                fail(self.w(f), f"parameter name {pn} clashes with the translator's names")
            if pt is None:
                fail(self.w(f), "parameter of type `_`")
            env[pn] = SeqVar(pt, mut)
            params.append((pn, pt))
        rt = f.ret
        self.top_ret = rt
        frame = SeqFrame("fn", ret_ty=rt)
        body = self.block(f.body, env, frame, 0, lambda term, ty, env2: self.emit_return(frame, term, ty, env2, f.body))
        ps = [f"({lname(n)} : {seq_lty(seq_unref(t))})" for n, t in params]
        self.externs.sort()  # by name: the order of the parameters does not depend on the order of the calls
        ps += [f"({n} : {t})" for n, t, _ in self.externs]
        if self.fuel:
            ps.append("(fuel : Nat)")
        lrt = seq_lty(seq_unref(rt), False)
        sig = ", ".join((["self"] if f.has_self else []) + [f"{pn}: {seq_show(pt)}" for pn, pt, _ in f.params])
        doc = f"/-- `{f.name}({sig}) -> {seq_show(rt)}` ({self.f}:{f.line})"
        for n, _, d in self.externs:
            doc += f"; {n} = {d}"
        if self.fuel:
            doc += "; the `from_fn` iterator is collected: the closure is called until it returns `None`, at most `fuel` times"
        doc += " -/"
        b = self.binders()
        head = f"def {lname(self.lean_name)} {b + ' ' if b else ''}{' '.join(ps)} : R {lrt} :="
        out = []
        for a in self.aux:
            out += a(b) + [""]
        out += [doc, head] + ["  " + x for x in body]
        return out

    def emit_return(self, frame, term, ty, env, node):
        """the lines of `return term` in `frame`"""
        want = frame.ret_ty
        if frame.kind == "fn":
            if want[0] == "iterret":
                fail(self.w(node), "a function returning `impl Iterator` must end in `std::iter::from_fn(move || ..)`")
            if not seq_same(ty, want):
                fail(self.w(node), f"type mismatch: the function returns {seq_show(want)}, found {seq_show(ty)}")
            return [f".ok {atom(term)}"]
        if not seq_same(ty, want):
            fail(self.w(node), f"type mismatch: the closure returns {seq_show(want)}, found {seq_show(ty)}")
        if frame.kind == "closure":
            return [f".ok ({term}, {seq_tuple(frame.state)})"]
        return [f".ok (.ret {atom(term)} {seq_tuple(frame.state)})"]

    # -- blocks and statements
    def block(self, b, env, frame, depth, k):
        """lines of the statements of `b` followed by `k(tail term, type, env restricted to the outer names)`"""
        outer = set(env)

        def done(term, ty, env2):
            return k(term, ty, {n: v for n, v in env2.items() if n in outer})

        def go(i, env):
            if i == len(b.stmts):
                if b.tail is None:
                    return done("()", UNIT, env)
                return self.cg(b.tail, env, frame, depth, done)
            s = b.stmts[i]
            rest = lambda env2: go(i + 1, env2)
            if s.kind == "let":
                if depth > 0 and s.name in env:
                    fail(self.w(s), f"`let {s.name}` shadows a variable of an enclosing block: outside the translated subset")
                if re.fullmatch(r"tmp\d+|ext_\w+|fuel", s.name):
                    fail(self.w(s), f"variable name {s.name} clashes with the translator's names")

                def bound(term, ty, env2):
                    if ty[0] == "unit":
                        fail(self.w(s), "`let` of a value of type `()`")
                    if s.has_ann and not seq_same(s.ann, ty):
                        fail(self.w(s), f"type mismatch: annotation {seq_show(s.ann)}, value {seq_show(ty)}")
                    if ty[0] == "iter0":
                        fail(self.w(s), "`collect()` needs a `Vec<..>` annotation")
                    env3 = dict(env2)
                    env3[s.name] = SeqVar(ty, s.mut)
                    return [f"let {lname(s.name)} := {term}"] + rest(env3)
                return self.cg(s.e, env, frame, depth, bound)
            if s.kind == "leteither":
                if depth > 0 and s.name in env:
                    fail(self.w(s), f"`let {s.name}` shadows a variable of an enclosing block: outside the translated subset")

                def bound(term, ty, env2):
                    if seq_unref(ty)[0] != "res2":
                        fail(self.w(s), f"`let (Ok(i) | Err(i)) = ..` on {seq_show(ty)}")
                    env3 = dict(env2)
                    env3[s.name] = SeqVar(tint("usize"))
                    return [f"let {lname(s.name)} := resEither {atom(term)}"] + rest(env3)
                return self.cg(s.e, env, frame, depth, bound)
            if s.kind == "assign":
                return self.assign(s, env, frame, depth, rest)
            if s.kind == "ret":
                return self.cg(s.e, env, frame, depth, lambda term, ty, env2: self.emit_return(frame, term, ty, env2, s))
            if s.kind == "whilelet":
                return self.whilelet(s, env, frame, depth, rest)
            if s.kind == "exprstmt":
                def dropped(term, ty, env2):
                    if ty[0] != "unit":
                        fail(self.w(s), f"a value of type {seq_show(ty)} is dropped by `;`: outside the translated subset")
                    return rest(env2)
                return self.cg(s.e, env, frame, depth, dropped)
            fail(self.w(s), "statement outside the translated subset")
        return go(0, env)

    def sync_alias(self, name, env):
        v = env[name]
        return [f"let {lname(v.alias)} := some {lname(name)}"] if v.alias else []

    def assign(self, s, env, frame, depth, rest):
        p = s.place
        while p.kind == "paren":
            p = p.e
        field = None
        if p.kind == "field" and p.e.kind == "var":
            field, p = p.name, p.e
        if p.kind != "var" or p.name not in env:
            fail(self.w(s), "assignment to something else than a `mut` local or one of its fields")
        v = env[p.name]
        if not v.mut:
            fail(self.w(s), f"assignment to `{p.name}`, which is not `mut`")
        vt = seq_unref(v.ty)
        if field is None:
            want = vt
        elif vt[0] == "range" and field in ("start", "end"):
            want = vt[1]
        else:
            fail(self.w(s), f"field `{field}` of {seq_show(vt)}")

        def got(term, ty, env2):
            if not seq_same(ty, want):
                fail(self.w(s), f"type mismatch: {seq_show(want)} vs {seq_show(ty)}")
            if field is None:
                lines = [f"let {lname(p.name)} := {term}"]
            else:
                lines = [f"let {lname(p.name)} := {{ {lname(p.name)} with {lname(field)} := {term} }}"]
            return lines + self.sync_alias(p.name, env2) + rest(env2)
        return self.cg(s.e, env, frame, depth, got)

    def whilelet(self, s, env, frame, depth, rest):
        if s.it not in env or seq_unref(env[s.it].ty)[0] != "iter" or not env[s.it].mut:
            fail(self.w(s), f"`while let Some(..) = {s.it}.next()`: `{s.it}` is not a `mut` consumed vector iterator (`vec.into_iter()`)")
        if env[s.it].alias:
            fail(self.w(s), "iterator alias")
        used = set()
        seq_idents(s.body, used)
        if s.it in used:
            fail(self.w(s), f"the body of the loop mentions the iterator `{s.it}`: outside the translated subset (the loop is a structural recursion over what is left of it)")
        if s.name in env:
            fail(self.w(s), f"the loop variable `{s.name}` shadows another variable")
        elem = seq_unref(env[s.it].ty)[1]
        self.nloop += 1
        fname = f"{self.lean_name}.loop{self.nloop}"
        fixed = [n for n in env if n != s.it and not env[n].mut and n in used]
        state = [n for n in env if n != s.it and env[n].mut]
        for n in fixed + state:
            if env[n].ty[0] == "iter":
                fail(self.w(s), "a second iterator alive across a loop is outside the translated subset")
        lf = SeqFrame("loop", state + [s.it], frame.ret_ty, frame)
        call = " ".join([fname] + [lname(n) for n in fixed + state])
        env_b = {n: env[n] for n in fixed + state}
        env_b[s.name] = SeqVar(elem)
        body = self.block(s.body, env_b, lf, depth + 1,
                          lambda term, ty, env2: ([] if ty[0] == "unit" else fail(self.w(s), "the loop body has a value")) or [f"{call} {lname(s.it)}"])
        rty = seq_lty(seq_unref(frame.ret_ty), False)
        sty = seq_tuple_ty([seq_unref(env[n].ty) for n in state] + [env[s.it].ty])
        ps = " ".join(f"({lname(n)} : {seq_lty(seq_unref(env[n].ty))})" for n in fixed + state)
        where = self.w(s)
        itn, item = lname(s.it), lname(s.name)
        nil_state = seq_tuple(state + ["[]"]) if state else "[]"

        def emit(b):
            return [f"/-- the loop `while let Some({s.name}) = {s.it}.next()` of `{self.node.name}` ({where}): structural recursion over what is left of "
                    f"`{s.it}`; `.ret v s` = `return v` inside the body, `.next s` = the iterator ran out; `s` = ({', '.join(state + [s.it])}) -/",
                    f"def {fname} {b + ' ' if b else ''}{ps + ' ' if ps else ''}: List {seq_lty(elem, False)} → R (Flow {rty} ({sty}))",
                    f"  | [] => .ok (.next {nil_state})",
                    f"  | {item} :: {itn} =>"] + ["    " + x for x in body]
        self.aux.append(emit)
        t = self.fresh()
        pat = seq_tuple(state + [s.it])
        lines = [f"bnd ({call} {itn}) fun {t} =>", f"match {t} with"]
        # how a `return` inside the loop leaves the enclosing frame
        v = self.fresh()
        lines.append(f"| .ret {v} {pat} => (")
        lines += ["  " + x for x in self.emit_return(frame, v, frame.ret_ty, env, s)] + ["  )"]
        lines.append(f"| .next {pat} =>")
        return lines + rest(env)

    # -- expressions: `k(term, type, env)` continues with the value
    def cg(self, e, env, frame, depth, k):
        kind = e.kind
        w = self.w(e)
        if kind == "paren":
            return self.cg(e.e, env, frame, depth, lambda t, ty, en: k(atom(t), ty, en))
        if kind in ("ref", "deref"):
            return self.cg(e.e, env, frame, depth, k)  # a shared reference to a value is the value
        if kind == "var":
            if e.name not in env:
                fail(w, f"unknown variable `{e.name}`")
            return k(lname(e.name), env[e.name].ty, env)
        if kind == "self":
            if "self" not in env:
                fail(w, "`self` in a function without receiver")
            return k("self", env["self"].ty, env)
        if kind == "bool":
            return k("true" if e.value else "false", BOOL, env)
        if kind == "none":
            if getattr(e, "result", False):
                fail(w, "`Err(..)` is outside the translated subset (sequence functions)")
            return k("none", T("opt", None), env)
        if kind == "some":
            if getattr(e, "result", False):
                fail(w, "`Ok(..)` is outside the translated subset (sequence functions)")
            return self.cg(e.e, env, frame, depth, lambda t, ty, en: k(f"some {atom(t)}", T("opt", seq_unref(ty)), en))
        if kind == "field":
            def fld(t, ty, en):
                ty = seq_unref(ty)
                if ty[0] == "range" and e.name in ("start", "end"):
                    return k(f"{atom(t)}.{lname(e.name)}", ty[1], en)
                if ty[0] == "vstruct" and e.name == "0":
                    return k(f"{atom(t)}.v0", T("list", ty[2]), en)
                fail(w, f"field `{e.name}` of {seq_show(ty)} is outside the translated subset")
            return self.cg(e.e, env, frame, depth, fld)
        if kind == "structlit":
            if len(e.fields) != 1 or e.fields[0][0] != "0":
                fail(w, "this constructor is outside the translated subset")
            st = self.self_t if e.name == "Self" else None
            if st is None or st[0] != "vstruct":
                fail(w, f"constructor `{e.name}(..)` is outside the translated subset")

            def mk(t, ty, en):
                if not seq_same(ty, T("list", st[2])):
                    fail(w, f"type mismatch: {seq_show(T('list', st[2]))} vs {seq_show(ty)}")
                return k(f"{st[1]}.mk {atom(t)}", st, en)
            return self.cg(e.fields[0][1], env, frame, depth, mk)
        if kind == "not":
            return self.cg(e.e, env, frame, depth, lambda t, ty, en: k(f"!{atom(t)}", BOOL, en) if seq_unref(ty) == BOOL else fail(w, "`!` on a non-bool"))
        if kind == "bin":
            op = e.op
            if op not in ("<", "<=", ">", ">=", "&&", "||"):
                fail(w, f"operator `{op}` is outside the translated subset (sequence functions)")
            if op in ("&&", "||"):
                # the right operand must be free of effects (it is evaluated lazily in Rust)
                def lhs(a, ta, en):
                    box = []
                    r = self.cg(e.r, en, frame, depth, lambda b, tb, en2: box.append((b, tb)) or [])
                    if r or len(box) != 1:
                        fail(w, f"an operand of `{op}` with effects is outside the translated subset")
                    b, tb = box[0]
                    if seq_unref(ta) != BOOL or seq_unref(tb) != BOOL:
                        fail(w, f"`{op}` on non-bool operands")
                    return k(f"({a} {op} {b})", BOOL, en)
                return self.cg(e.l, env, frame, depth, lhs)

            def lhs(a, ta, en):
                def rhs(b, tb, en2):
                    ua, ub = seq_unref(ta), seq_unref(tb)
                    if not seq_same(ua, ub) or ua is None or ua[0] not in ("tparam", "int"):
                        fail(w, f"`{op}` on {seq_show(ua)} and {seq_show(ub)} is outside the translated subset")
                    if ua[0] == "tparam":
                        if not (self.node.tparams.get(ua[1]) or set()) & ORD_BOUNDS:
                            fail(w, f"`{op}` on `{ua[1]}`, which is not bounded by PartialOrd / Ord")
                        self.ord_ops = True
                    return k(f"decide ({atom(a)} {op.replace('<=', '≤').replace('>=', '≥')} {atom(b)})", BOOL, en2)
                return self.cg(e.r, en, frame, depth, rhs)
            return self.cg(e.l, env, frame, depth, lhs)
        if kind == "if":
            def cond(c, tc, en):
                if seq_unref(tc) != BOOL:
                    fail(w, "the condition of `if` is not a bool")
                a = self.block(e.a, en, frame, depth + 1, k)
                if e.b is None:
                    b = k("()", UNIT, en)
                else:
                    b = self.block(e.b, en, frame, depth + 1, k)
                return [f"if {c} then ("] + ["  " + x for x in a] + ["  )", "else ("] + ["  " + x for x in b] + ["  )"]
            return self.cg(e.c, env, frame, depth, cond)
        if kind == "iflet":
            if e.b is None:
                fail(w, "`if let` without `else` is outside the translated subset")
            sc = e.scrut
            while sc.kind == "paren":
                sc = sc.e
            alias = None
            if e.by_ref:
                if sc.kind != "var" or sc.name not in env:
                    fail(w, "`if let Some(ref ..) = e`: `e` has to be a local variable")
                if e.mut:
                    if not env[sc.name].mut:
                        fail(w, f"`ref mut` into `{sc.name}`, which is not `mut`")
                    alias = sc.name
            elif sc.kind == "var" and sc.name in env and seq_unref(env[sc.name].ty)[0] == "opt" and seq_unref(env[sc.name].ty)[1][0] != "int":
                fail(w, "`if let Some(x) = opt` moves out of `opt`: outside the translated subset (write `Some(ref x)` / `Some(ref mut x)`)")
            if e.name in env:
                fail(w, f"`{e.name}` shadows another variable")

            def scrut(t, ty, en):
                ty = seq_unref(ty)
                if ty[0] != "opt":
                    fail(w, f"`if let Some(..)` on {seq_show(ty)}")
                en_a = dict(en)
                en_a[e.name] = SeqVar(ty[1], e.mut, alias)
                a = self.block(e.a, en_a, frame, depth + 1, k)
                b = self.block(e.b, en, frame, depth + 1, k)
                return [f"match {t} with", f"| some {lname(e.name)} => ("] + ["  " + x for x in a] + ["  )", "| none => ("] + ["  " + x for x in b] + ["  )"]
            return self.cg(sc, env, frame, depth, scrut)
        if kind == "blockexpr":
            return self.block(e.b, env, frame, depth + 1, k)
        if kind == "return":
            return self.cg(e.e, env, frame, depth, lambda t, ty, en: self.emit_return(frame, t, ty, en, e))
        if kind == "call":
            if e.path == ["std", "iter", "from_fn"]:
                return self.from_fn(e, env, frame, depth, k)
            fail(w, f"call of `{'::'.join(e.path)}`, which is not translated (sequence functions)")
        if kind == "method":
            return self.method(e, env, frame, depth, k)
        fail(w, f"this expression ({kind}) is outside the translated subset (sequence functions)")

    def extern(self, e, pname, arg_terms, arg_tys, ty, desc, frame):
        """an untranslated library call: the library FUNCTION is a parameter `pname` of the generated definition (one per
        library function, named after it, applied to the arguments of each call), its contract a hypothesis of the theorems"""
        if frame.kind != "fn":
            fail(self.w(e), f"the untranslated library call `.{e.name}(..)` inside a closure or loop is outside the translated subset")
        lt = " → ".join([seq_lty(seq_unref(t), False) for t in arg_tys] + [seq_lty(ty, False)])
        for n, t, _ in self.externs:
            if n == pname and t != lt:
                fail(self.w(e), f"`.{e.name}(..)` is called at two different types")
        if pname not in [n for n, _, _ in self.externs]:
            self.externs.append((pname, lt, desc))
        return "(" + " ".join([pname] + [atom(a) for a in arg_terms]) + ")"

    def method(self, e, env, frame, depth, k):
        w, name = self.w(e), e.name
        recv = e.e
        while recv.kind in ("paren", "ref"):
            recv = recv.e
        rv = env.get(recv.name) if recv.kind == "var" else None
        rty = seq_unref(rv.ty) if rv else None

        def nargs(n):
            if len(e.args) != n:
                fail(w, f"`.{name}()` takes {n} argument(s)")
        # methods with an effect on a `mut` local
        if rv is not None and rty[0] == "iter" and name == "next":
            nargs(0)
            if not rv.mut:
                fail(w, f"`{recv.name}.next()` on a variable that is not `mut`")
            t = self.fresh()
            return [f"let {t} := iterNext {lname(recv.name)}", f"let {lname(recv.name)} := {t}.2"] + k(f"{t}.1", T("opt", rty[1]), env)
        if rv is not None and rty[0] == "opt" and name in ("replace", "take"):
            nargs(1 if name == "replace" else 0)
            if not rv.mut:
                fail(w, f"`{recv.name}.{name}()` on a variable that is not `mut`")
            if rv.alias:
                fail(w, "nested alias")
            t = self.fresh()
            if name == "take":
                return [f"let {t} := {lname(recv.name)}", f"let {lname(recv.name)} : {seq_lty(rty)} := none"] + k(t, rty, env)

            def arg(a, ta, en):
                if not seq_same(ta, rty[1]):
                    fail(w, f"type mismatch: {seq_show(rty[1])} vs {seq_show(ta)}")
                return [f"let {t} := {lname(recv.name)}", f"let {lname(recv.name)} := some {atom(a)}"] + k(t, rty, en)
            return self.cg(e.args[0], env, frame, depth, arg)
        if rv is not None and rty[0] == "list" and name in ("sort_unstable_by", "sort_unstable", "dedup"):
            if not rv.mut:
                fail(w, f"`{recv.name}.{name}()` on a variable that is not `mut`")
            if rty[1] is None:
                fail(w, "element type not known")
            key = ""
            if name == "sort_unstable_by":
                nargs(1)
                key = self.sort_key(e.args[0], rty[1])
            else:
                nargs(0)
            x = self.extern(e, "ext_" + name + ("_" + key if key else ""), [lname(recv.name)], [rty], rty, SEQ_EXTERNS[name].format(key=key), frame)
            return [f"let {lname(recv.name)} := {x}"] + k("()", UNIT, env)
        if name in ("sort_unstable_by", "sort_unstable", "dedup", "replace", "take", "next"):
            fail(w, f"`.{name}()` on something else than a suitable `mut` local variable is outside the translated subset")

        def on(t, ty, en):
            ty = seq_unref(ty)
            k0 = ty[0] if ty else None
            if name == "into_iter" and k0 in ("intoiter", "list"):
                nargs(0)
                return k(t, T("iter", ty[1]), en)
            if name == "collect" and k0 == "iter":
                nargs(0)
                return k(t, T("list", ty[1]), en)
            if name == "unwrap" and k0 == "opt":
                nargs(0)
                v = self.fresh()
                return [f"match {t} with", "| none => .error (.panic \"called `Option::unwrap()` on a `None` value\")", f"| some {v} =>"] + k(v, ty[1], en)
            if name == "is_ok" and k0 == "res2":
                nargs(0)
                return k(f"resIsOk {atom(t)}", BOOL, en)
            if name == "get" and k0 == "list":
                nargs(1)
                return self.cg(e.args[0], en, frame, depth, lambda a, ta, en2: k(f"seqGet {atom(t)} {atom(a)}", T("opt", ty[1]), en2)
                               if seq_unref(ta) == tint("usize") else fail(w, f"`.get(..)` with an index of type {seq_show(ta)}"))
            if name == "binary_search" and k0 == "list":
                nargs(1)

                def arg(a, ta, en2):
                    if not seq_same(ta, ty[1]) or a not in [lname(n) for n in en2]:
                        fail(w, "`.binary_search(x)`: `x` has to be a variable of the element type")
                    return k(self.extern(e, "ext_" + name, [t, a], [ty, ty[1]], T("res2"), SEQ_EXTERNS[name], frame), T("res2"), en2)
                return self.cg(e.args[0], en, frame, depth, arg)
            fail(w, f"method `.{name}()` on {seq_show(ty)} is outside the translated subset (sequence functions)")
        return self.cg(e.e, env, frame, depth, on)

    def sort_key(self, c, elem):
        """exactly `|a, b| a.FIELD.cmp(&b.FIELD)`"""
        w = self.w(c)
        if c.kind != "closure" or len(c.params) != 2 or c.body.stmts or c.body.tail is None or c.params[0] == c.params[1]:
            fail(w, "the argument of `sort_unstable_by` has to be `|a, b| a.FIELD.cmp(&b.FIELD)`")
        m = c.body.tail
        a, b = c.params
        ok = m.kind == "method" and m.name == "cmp" and len(m.args) == 1 and m.e.kind == "field" and m.e.e.kind == "var" and m.e.e.name == a
        if ok:
            arg = m.args[0]
            ok = arg.kind == "ref" and arg.e.kind == "field" and arg.e.e.kind == "var" and arg.e.e.name == b and arg.e.name == m.e.name
        if not ok:
            fail(w, "the argument of `sort_unstable_by` has to be `|a, b| a.FIELD.cmp(&b.FIELD)` (an EXTERN whose contract is: sorted by FIELD)")
        if seq_unref(elem)[0] != "range" or m.e.name not in ("start", "end"):
            fail(w, f"sort key `{m.e.name}` of {seq_show(elem)}")
        return m.e.name

    def from_fn(self, e, env, frame, depth, k):
        w = self.w(e)
        if frame.kind != "fn" or self.fuel:
            fail(w, "`std::iter::from_fn` anywhere else than as the result of the function is outside the translated subset")
        if self.top_ret[0] != "iterret":
            fail(w, "`std::iter::from_fn` in a function that does not return `impl Iterator<Item = ..>`")
        if len(e.args) != 1 or e.args[0].kind != "closure" or e.args[0].params or not e.args[0].move:
            fail(w, "the argument of `std::iter::from_fn` has to be `move || { .. }`")
        c = e.args[0]
        used = set()
        seq_idents(c.body, used)
        if "self" in used:
            fail(w, "capture of `self`")
        cap = [n for n in env if n in used]
        state = [n for n in cap if env[n].mut]
        fixed = [n for n in cap if not env[n].mut]
        for n in cap:
            if env[n].alias:
                fail(w, "capture of an alias")
        item = T("opt", self.top_ret[1])
        cf = SeqFrame("closure", state, item, frame)
        env_c = {n: env[n] for n in fixed + state}
        body = self.block(c.body, env_c, cf, depth + 1, lambda term, ty, env2: self.emit_return(cf, term, ty, env2, c))
        self.nclosure += 1
        fname = f"{self.lean_name}.next"
        if self.nclosure > 1:
            fail(w, "two closures")
        ps = " ".join(f"({lname(n)} : {seq_lty(seq_unref(env[n].ty))})" for n in fixed + state)
        sty = seq_tuple_ty([seq_unref(env[n].ty) for n in state])
        where = w

        def emit(b):
            return [f"/-- one call of the closure passed to `std::iter::from_fn` in `{self.node.name}` ({where}): captured state ({', '.join(state)}) ↦ the item and the new state -/",
                    f"def {fname} {b + ' ' if b else ''}{ps} : R ({seq_lty(item, False)} × ({sty})) :="] + ["  " + x for x in body]
        self.aux.append(emit)
        self.fuel = True
        call = " ".join([fname] + [lname(n) for n in fixed])
        st = seq_tuple(state)
        proj = " ".join(f"s.{i + 1}" if i + 1 < len(state) or len(state) == 1 else f"s.{i + 1}" for i in range(len(state)))
        if len(state) == 1:
            proj = "s"
        elif len(state) > 2:
            proj = " ".join(["s.1"] + ["s" + ".2" * i + ".1" for i in range(1, len(state) - 1)] + ["s" + ".2" * (len(state) - 1)])
        # the function's value: the items, collected
        return [f"fromFn (fun s => {call} {proj}) fuel {st}"]


def seq_section(toks):
    """the Lean text (lines) of the SEQ_TARGETS; `toks(rel)` = the tokens of a file without attributes"""
    L, cur, structs_done = ["set_option linter.unusedVariables false", ""], None, []
    for rel, hdr, ns, rname, lean_name in SEQ_TARGETS:
        tk = toks(rel)
        uses = std_uses(tk)
        tparams, self_t, header = {}, None, None
        if hdr is not None:
            header = hdr.split()
            hp = SeqParser([Tok("op" if not re.match(r"\w", x) else "id", x, 0) for x in header] + [Tok("eof", "", 0)], rel + " (SEQ_TARGETS)", set(SEQ_STRUCTS), uses=uses)
            hp.eat("impl")
            hp.generics()
            if "for" in header:
                hp.i = header.index("for") + 1
            self_t = hp.type_()
            if hp.peek().kind != "eof" or self_t[0] != "vstruct":
                fail(rel, f"impl header `{hdr}`")
            tparams = hp.tparams
            sname = self_t[1]
            if sname not in structs_done:
                want = f"struct {sname} < T > ( Vec < T > ) ;".split()
                texts = [x.text for x in tk]
                hits = [i for i in range(len(texts) - len(want)) if texts[i : i + len(want)] == want]
                if len(hits) != 1:
                    fail(rel, f"`struct {sname}<T>(Vec<T>);` not found (exactly this shape is translated)")
                structs_done.append(sname)
                if cur is not None:
                    L += [f"end {cur}", ""]
                    cur = None
                L += [f"/-- `struct {sname}<T>(Vec<T>)` ({rel}:{tk[hits[0]].line}) -/", f"structure {sname} (T : Type) where", "  v0 : List T  -- Vec<T>", ""]
        where = find_impl_fns(tk, rel, self_t[1] if self_t else None, None, [rname], header)
        p = SeqParser(tk, rel, set(SEQ_STRUCTS), tparams=tparams, uses=uses)
        p.self_t = self_t
        p.i = where[rname]
        node = p.seq_fn()
        g = SeqGen(rel, ns, lean_name, node, self_t, file_uses(tk))
        lines = g.gen()
        if ns != cur:
            if cur is not None:
                L += [f"end {cur}", ""]
            L += [f"namespace {ns}", ""]
            cur = ns
        L += lines + [""]
    if cur is not None:
        L += [f"end {cur}", ""]
    return L


# ------------------------------------------------------------------------------------------------
# [schedule extension] fourth increment: opening-hours/src/schedule.rs (DESIGN §8.9, notes/RS2LEAN4-schedule.md).
# `Vec<T>` with an index (`v[i]`, writes through `v[i].a.b`, `remove`, `pop`, `push`, `extend`, `last`, `len`), `Peekable`
# iterators (`peek`/`next`), general `while c { .. }` / `while let Some(x) = e { .. }` loops and recursion with an
# explicit `fuel` (the theorems prove a bound: termination is part of the statement), `&mut self` methods, `assert!` with
# a message, `std::mem::take`, `match` on an `Option`, iterator chains `filter / map / cloned / filter_map / all /
# collect` with closures (pure ones are list functions; a closure writing to a captured variable threads it: `filterMapS`).
# The types `ExtendedTime`, `RuleKind`, `UniqueSortedVec<Arc<str>>` are ABSTRACT here: type parameters `Time` (with the
# derived comparison operators and `==`, about which nothing else is assumed), `Kind` (`==`), `Comments`; their constants
# and library functions are NAMED parameters of the generated definitions (`MIDNIGHT_00`, `RuleKind_Closed`, `ext_union`,
# ..), passed BY NAME in the theorems.  Support library: OH/Model/RustVec.lean.  Same rule: anything else is an error
# naming file:line.  A separate front end (`SchedParser` extends the expression grammar of `SeqParser`, `SchedGen` is a
# typed CPS generator like `SeqGen`).

F_SCHED = "opening-hours/src/schedule.rs"
# (impl type, trait or None, Rust name) in dependency order (a callee before its callers)
SCHED_TARGETS = [
    ("TimeRange", None, "new"),
    ("Schedule", None, "from_ranges"),
    ("Schedule", None, "is_empty"),
    ("Schedule", None, "is_always_closed"),
    ("Schedule", None, "insert"),
    ("Schedule", None, "addition"),
    ("IntoIter", None, "new"),
    ("IntoIter", None, "pre_yield"),
    ("IntoIter", "Iterator", "next"),
]
# structs of schedule.rs that are translated (declarations read from the source)
SCHED_STRUCTS = ["TimeRange", "Schedule", "IntoIter"]
# abstract types: Rust name -> (kind, Lean type parameter, file of the declaration, derives that must be present)
SCHED_ABSTRACT = {
    "ExtendedTime": ("atime", "Time", F_EXT, {"PartialOrd", "Ord", "PartialEq", "Eq", "Clone", "Copy"}),
    "RuleKind": ("akind", "Kind", "opening-hours-syntax/src/rules/mod.rs", {"PartialEq", "Eq", "Clone", "Copy"}),
}
# constants of abstract types: path -> (type kind, imported name that must be in scope)
SCHED_CONSTS = {
    "ExtendedTime::MIDNIGHT_00": ("atime", "MIDNIGHT_00"), "ExtendedTime::MIDNIGHT_24": ("atime", "MIDNIGHT_24"),
    "RuleKind::Closed": ("akind", "RuleKind_Closed"), "RuleKind::Open": ("akind", "RuleKind_Open"), "RuleKind::Unknown": ("akind", "RuleKind_Unknown"),
}
SCHED_IMPORTS = {("opening_hours_syntax", "ExtendedTime"), ("opening_hours_syntax", "RuleKind"), ("opening_hours_syntax::sorted_vec", "UniqueSortedVec"),
                 ("std::sync", "Arc"), ("std::ops", "Range"), ("std::iter", "Peekable")}
SCHED_BINDER = ("{Time Kind Comments : Type} [LT Time] [LE Time] [DecidableLT Time] [DecidableLE Time] [DecidableEq Time] [DecidableEq Kind]")
SCHED_EXT_DOC = {
    "ext_union": "the library function `UniqueSortedVec::union` (sorted_vec.rs, not translated; its contract is C20's)",
    "ext_comments_new": "`UniqueSortedVec::new()` (the empty vector)",
    "ext_comments_default": "`UniqueSortedVec::default()` (what `std::mem::take` leaves behind: the empty vector)",
    "ext_sort_unstable_by_key_range_start": "the library function `v ↦ v after v.sort_unstable_by_key(|rng| rng.range.start)` (contract: a permutation sorted by `range.start`)",
}
S_TIME, S_KIND, S_COMM, S_USZ = T("atime"), T("akind"), T("acomm"), tint("usize")


def S_ST(name):
    return T("st", name)


_seq_lty_before_sched, _seq_show_before_sched = seq_lty, seq_show


def seq_lty(t, top=True):  # noqa: F811  [schedule extension] the types of schedule.rs, then the sequence types
    k = t[0]
    if k in ("atime", "akind", "acomm"):
        return {"atime": "Time", "akind": "Kind", "acomm": "Comments"}[k]
    if k == "st":
        s = f"{t[1]} Time Kind Comments"
        return s if top else f"({s})"
    return _seq_lty_before_sched(t, top)


def seq_show(t):  # noqa: F811
    if t is not None and t[0] in ("atime", "akind", "acomm", "st"):
        return {"atime": "ExtendedTime", "akind": "RuleKind", "acomm": "UniqueSortedVec<Arc<str>>"}.get(t[0]) or t[1]
    return _seq_show_before_sched(t)


class SchedParser(SeqParser):
    """`SeqParser` plus: the types of schedule.rs; receivers `self` / `&self` / `&mut self`; statements `while c { .. }`,
    `while let Some(x) = e { .. }`, `place op= e;`, `assert!(c, "msg");`; expressions `&mut place`, `match e { None => a,
    Some(x) => b }`, closures with `mut` parameters, turbofish `.collect::<Vec<_>>()`."""

    def type_(self):
        tk = self.peek()
        if tk.text in SCHED_ABSTRACT:
            self.i += 1
            return T(SCHED_ABSTRACT[tk.text][0])
        if tk.text == "UniqueSortedVec":
            for x in ("UniqueSortedVec", "<", "Arc", "<", "str"):
                self.eat(x)
            self.close_angle()
            self.close_angle()
            return S_COMM
        if tk.text in SCHED_STRUCTS:
            self.i += 1
            return S_ST(tk.text)
        if tk.text == "Peekable":
            for x in ("Peekable", "<", "std", "::", "vec", "::", "IntoIter", "<"):
                self.eat(x)
            inner = self.type_()
            self.close_angle()
            self.close_angle()
            return T("iter", inner)
        if tk.text == "Self" and self.peek(1).text == "::":
            self.i += 2
            self.eat("Item")
            if getattr(self, "item_t", None) is None:
                fail(self.where(tk), "`Self::Item` outside an `impl Iterator` with `type Item = ..;`")
            return self.item_t
        return SeqParser.type_(self)

    def seq_fn(self):
        line = self.eat("fn").line
        name = self.ident()
        if self.at("<"):
            fail(self.where(), "generic functions are outside the translated subset (schedule functions)")
        self.eat("(")
        params, has_self, mut_self = [], False, False
        while not self.at(")"):
            if self.at("&") and self.peek(1).text == "mut" and self.peek(2).text == "self":
                self.i += 3
                has_self = mut_self = True
            elif self.at("&") and self.peek(1).text == "self":
                self.i += 2
                has_self = True
            elif self.at("self"):
                self.i += 1
                has_self = True
            elif self.at("mut") and self.peek(1).text == "self":
                fail(self.where(), "the receiver `mut self` is outside the translated subset")
            else:
                mut = False
                if self.at("mut"):
                    self.i += 1
                    mut = True
                pn = self.ident()
                self.eat(":")
                params.append((pn, self.type_(), mut))
            if not self.at(")"):
                self.eat(",")
        self.eat(")")
        self.eat("->")
        ret = self.type_()
        if self.at("where"):
            fail(self.where(), "`where` clauses are outside the translated subset")
        body = self.block()
        return Node("fn", line, name=name, params=params, has_self=has_self, mut_self=mut_self, ret=ret, body=body, tparams={})

    def block(self):
        line = self.eat("{").line
        stmts, tail = [], None
        while not self.at("}"):
            if tail is not None:
                fail(self.where(), "statement after the tail expression")
            tk = self.peek()
            if self.at("let"):
                stmts.append(self.seq_let())
            elif self.at("while"):
                stmts.append(self.sched_while())
            elif self.at("assert") and self.peek(1).text == "!":
                self.i += 2
                self.eat("(")
                c = self.expr()
                self.eat(",")
                m = self.peek()
                if m.kind != "str" or not re.fullmatch(r'"[^"\\{}]*"', m.text):
                    fail(self.where(), "`assert!` needs a plain string message (no format arguments)")
                self.i += 1
                if self.at(","):
                    self.i += 1
                self.eat(")")
                self.eat(";")
                stmts.append(Node("assertmsg", tk.line, c=c, msg=m.text[1:-1]))
            elif self.at("return"):
                self.i += 1
                e = self.expr()
                if not self.at("}"):
                    self.eat(";")
                stmts.append(Node("ret", tk.line, e=e))
                if not self.at("}"):
                    fail(self.where(), "statement after `return`")
            elif self.at("if"):
                e = self.primary(False)
                if self.at("}"):
                    tail = e
                else:
                    if self.at(";"):
                        self.i += 1
                    elif self.at(".") or self.at("?"):
                        fail(self.where(), "a method call on an `if` expression is outside the translated subset")
                    stmts.append(Node("exprstmt", e.line, e=e))
            else:
                e = self.expr()
                t2 = self.peek()
                if t2.kind == "op" and t2.text in ("=", "+="):
                    self.i += 1
                    rhs = self.expr()
                    self.eat(";")
                    stmts.append(Node("assign", t2.line, place=e, e=rhs, op=self.ASSIGN[t2.text]))
                elif t2.kind == "op" and t2.text in self.ASSIGN:
                    fail(self.where(), f"`{t2.text}` is outside the translated subset (schedule functions)")
                elif self.at(";"):
                    self.i += 1
                    stmts.append(Node("exprstmt", e.line, e=e))
                else:
                    tail = e
        self.eat("}")
        return Node("block", line, stmts=stmts, tail=tail)

    def sched_while(self):
        line = self.eat("while").line
        if self.at("let"):
            self.i += 1
            name, by_ref, _ = self.some_pattern()
            if by_ref:
                fail(self.where(), "`ref` in a `while let` pattern is outside the translated subset")
            self.eat("=")
            scrut = self.expr(nostruct=True)
            return Node("while", line, name=name, c=scrut, body=self.block())
        c = self.expr(nostruct=True)
        return Node("while", line, name=None, c=c, body=self.block())

    def unary(self, nostruct):
        tk = self.peek()
        if tk.kind == "op" and tk.text == "&" and self.peek(1).text == "mut":
            self.i += 2
            return Node("refmut", tk.line, e=self.unary(nostruct))
        return SeqParser.unary(self, nostruct)

    def postfix(self, nostruct):
        e = self.primary(nostruct)
        while True:
            if self.at("["):
                ln = self.eat("[").line
                idx = self.expr()
                self.eat("]")
                e = Node("index", ln, e=e, idx=idx)
            elif self.at("."):
                ln = self.eat(".").line
                name = self.ident()
                if self.at("::"):
                    if name != "collect":
                        fail(self.where(), "turbofish is outside the translated subset (only `.collect::<Vec<_>>()`)")
                    for x in ("::", "<", "Vec", "<", "_"):
                        self.eat(x)
                    self.close_angle()
                    self.close_angle()
                    a = self.args()
                    e = Node("method", ln, e=e, name="collect", args=a, turbofish=True)
                elif self.at("("):
                    e = Node("method", ln, e=e, name=name, args=self.args())
                else:
                    e = Node("field", ln, e=e, name=name)
            elif self.at("?"):
                fail(self.where(), "`?` is outside the translated subset (schedule functions)")
            else:
                return e

    def primary(self, nostruct):
        tk = self.peek()
        if tk.kind == "id" and tk.text == "match":
            self.i += 1
            scrut = self.expr(nostruct=True)
            self.eat("{")
            arms = []
            for _ in range(2):
                ptk = self.peek()
                if self.at("None"):
                    self.i += 1
                    key, name = "none", None
                elif self.at("Some"):
                    name, by_ref, _ = self.some_pattern()
                    if by_ref:
                        fail(self.where(ptk), "`ref` in a `match` pattern is outside the translated subset")
                    key = "some"
                else:
                    fail(self.where(), "a `match` that is not `match e { None => a, Some(x) => b }` is outside the translated subset")
                if key in [a[0] for a in arms]:
                    fail(self.where(ptk), "two arms of the same shape")
                self.eat("=>")
                if self.at("{"):
                    body = self.block()
                    if self.at(","):
                        self.i += 1
                else:
                    bl = self.peek().line
                    body = Node("block", bl, stmts=[], tail=self.expr())
                    if not self.at("}"):
                        self.eat(",")
                arms.append((key, name, body))
            self.eat("}")
            return Node("matchopt", tk.line, scrut=scrut, arms=arms)
        return SeqParser.primary(self, nostruct)

    def closure(self, tk, move):
        if move:
            fail(self.where(tk), "`move` closures are outside the translated subset (schedule functions)")
        params = []
        if self.at("||"):
            self.i += 1
        else:
            self.eat("|")
            while not self.at("|"):
                mut = False
                if self.at("mut"):
                    self.i += 1
                    mut = True
                ptk = self.peek()
                if ptk.kind != "id" or ptk.text in ("ref",):
                    fail(self.where(), "this closure parameter is outside the translated subset")
                params.append((self.ident(), mut))
                if self.at(":"):
                    fail(self.where(), "annotated closure parameters are outside the translated subset")
                if not self.at("|"):
                    self.eat(",")
            self.eat("|")
        if self.at("{"):
            body = self.block()
        else:
            bl = self.peek().line
            body = Node("block", bl, stmts=[], tail=self.expr())
        return Node("closure", tk.line, params=params, body=body, move=False)


class SchedVar:
    def __init__(self, ty, mut=False, blk=0):
        self.ty, self.mut, self.blk = ty, mut, blk


class SchedFrame:
    """where a `return` goes: "fn" (`.ok v` / `.ok (v, self)`), "loop" (`.ok (.ret v state)`), "pure" (a closure: no `return`)"""

    def __init__(self, kind, state=(), ret_ty=None):
        self.kind, self.state, self.ret_ty = kind, list(state), ret_ty


class SchedGen:
    def __init__(self, fname, impl_ty, node, self_t, fields, sigs, uses, consts):
        self.f, self.impl_ty, self.node, self.self_t, self.fields, self.sigs = fname, impl_ty, node, self_t, fields, sigs
        self.uses, self.consts = uses, consts  # (module, name) imports of the file; associated constants of the impl type
        self.lean_name = f"{impl_ty}.{node.name}"
        self.n = self.nloop = self.nblk = 0
        self.effects = 0  # number of emitted lines that can fail / write (a pure closure emits none)
        self.externs = {}  # name -> Lean type
        self.aux = []
        self.fuel = False
        self.recursive = False

    def w(self, node):
        return f"{self.f}:{node.line}"

    def fresh(self):
        self.n += 1
        return f"tmp{self.n}"

    def ext(self, name, lty_):
        if name in self.externs and self.externs[name] != lty_:
            fail(self.f, f"parameter {name} at two types")
        self.externs[name] = lty_
        return name

    def ext_args(self, names):
        return "".join(f" ({n} := {n})" for n in sorted(names))

    def site(self, e):
        return f'"{self.node.name}:{e.line}"'

    # -- the top-level function
    def gen(self):
        f = self.node
        env, params = {}, []
        if f.has_self:
            env["self"] = SchedVar(self.self_t, f.mut_self)
            params.append(("self", self.self_t))
        for pn, pt, mut in f.params:
            if re.fullmatch(r"tmp\d+|ext_\w+|fuel|MIDNIGHT_\w+|RuleKind_\w+", pn):
                fail(self.w(f), f"parameter name {pn} clashes with the translator's names")
            if pt is None:
                fail(self.w(f), "parameter of type `_`")
            env[pn] = SchedVar(pt, mut)
            params.append((pn, pt))
        self.top_env = env
        frame = SchedFrame("fn", ret_ty=f.ret)
        self.params = params
        body = self.block(f.body, env, frame, lambda term, ty, env2: self.emit_return(frame, term, ty, f.body))
        if self.recursive:
            self.fuel = True
        ps = [f"({lname(n)} : {seq_lty(seq_unref(t))})" for n, t in params]
        ps += [f"({n} : {t})" for n, t in sorted(self.externs.items())]
        if self.fuel:
            ps.append("(fuel : Nat)")
        lrt = seq_lty(seq_unref(f.ret), False)
        if f.mut_self:
            lrt = f"({lrt} × {seq_lty(self.self_t, False)})"
        sig = ", ".join((["&mut self" if f.mut_self else "self"] if f.has_self else []) + [f"{pn}: {seq_show(pt)}" for pn, pt, _ in f.params])
        doc = f"/-- `{self.impl_ty}::{f.name}({sig}) -> {seq_show(f.ret)}` ({self.f}:{f.line})"
        for n in sorted(self.externs):
            if n in SCHED_EXT_DOC:
                doc += f"; {n} = {SCHED_EXT_DOC[n]}"
        if f.mut_self:
            doc += "; `&mut self`: the result is paired with the new `self`"
        if self.fuel:
            doc += "; `fuel` bounds the iterations of each `while` loop / the depth of the recursion (running out is an error outcome)"
        doc += " -/"
        head = f"def {self.lean_name} {SCHED_BINDER} {' '.join(ps)} : R {lrt} :="
        out = []
        for a in self.aux:
            out += a() + [""]
        if self.recursive:
            body = ["match fuel with", "| 0 => .error (.panic loopFuelExhausted)", "| fuel + 1 =>"] + ["  " + x for x in body]
        out += [doc, head] + ["  " + x for x in body]
        text = "\n".join(out).replace("⟦EXT⟧", self.ext_args(self.externs))
        return text.split("\n")

    def emit_return(self, frame, term, ty, node):
        if frame.kind == "pure":
            fail(self.w(node), "`return` inside a closure is outside the translated subset")
        if not seq_same(ty, frame.ret_ty) or (ty is not None and ty[0] == "opt" and ty[1] is None and False):
            fail(self.w(node), f"type mismatch: the function returns {seq_show(frame.ret_ty)}, found {seq_show(ty)}")
        if frame.kind == "fn":
            return [f".ok ({term}, self)"] if self.node.mut_self else [f".ok {atom(term)}"]
        return [f".ok (.ret {atom(term)} {seq_tuple(frame.state)})"]

    # -- blocks and statements
    def block(self, b, env, frame, k, bind=None):
        """lines of the statements of `b` followed by `k(tail term, type, env restricted to the outer names)`; `bind` = a
        variable bound by the construct the block belongs to (a `while let` / `match` pattern), in the block's own scope"""
        outer = dict(env)
        self.nblk += 1
        blk = self.nblk
        if bind:
            env = dict(env)
            env[bind[0]] = SchedVar(bind[1], False, blk)

        def done(term, ty, env2):
            for n in env2:
                if n in outer and env2[n] is not outer[n]:
                    fail(self.w(b), f"`{n}` is shadowed inside a block and the outer variable is alive after it: outside the translated subset")
            return k(term, ty, outer)

        def go(i, env):
            if i == len(b.stmts):
                if b.tail is None:
                    return done("()", UNIT, env)
                return self.cg(b.tail, env, frame, done)
            s = b.stmts[i]
            rest = lambda env2: go(i + 1, env2)
            if s.kind == "let":
                if re.fullmatch(r"tmp\d+|ext_\w+|fuel|MIDNIGHT_\w+|RuleKind_\w+|self", s.name):
                    fail(self.w(s), f"variable name {s.name} clashes with the translator's names")
                if s.name in env and env[s.name].blk != blk:
                    fail(self.w(s), f"`let {s.name}` shadows a variable of an enclosing block: outside the translated subset")

                def bound(term, ty, env2):
                    if ty is None or ty[0] == "unit":
                        fail(self.w(s), "`let` of a value of type `()` / of unknown type")
                    if s.has_ann and not seq_same(s.ann, ty):
                        fail(self.w(s), f"type mismatch: annotation {seq_show(s.ann)}, value {seq_show(ty)}")
                    if ty[0] == "iter" and ty[-1] == "lazy":
                        fail(self.w(s), "an iterator chain that is not collected is outside the translated subset")
                    env3 = dict(env2)
                    env3[s.name] = SchedVar(ty, s.mut, blk)
                    return [f"let {lname(s.name)} := {term}"] + rest(env3)
                return self.cg(s.e, env, frame, bound)
            if s.kind == "assign":
                return self.assign(s, env, frame, rest)
            if s.kind == "ret":
                return self.cg(s.e, env, frame, lambda term, ty, env2: self.emit_return(frame, term, ty, s))
            if s.kind == "while":
                return self.while_(s, env, frame, rest)
            if s.kind == "assertmsg":
                def chk(c, tc, env2):
                    if seq_unref(tc) != BOOL:
                        fail(self.w(s), "`assert!` on a non-bool")
                    self.effects += 1
                    return [f"if {c} then ("] + ["  " + x for x in rest(env2)] + ["  )", f'else .error (.panic "{s.msg}")']
                return self.cg(s.c, env, frame, chk)
            if s.kind == "exprstmt":
                def dropped(term, ty, env2):
                    if ty is None or ty[0] != "unit":
                        fail(self.w(s), f"a value of type {seq_show(ty)} is dropped by `;`: outside the translated subset")
                    return rest(env2)
                return self.cg(s.e, env, frame, dropped)
            fail(self.w(s), "statement outside the translated subset")
        return go(0, env)

    # -- places: a `mut` local / `self` followed by fields and indices
    def place_root(self, p):
        while p.kind in ("field", "index", "paren"):
            p = p.e
        return p

    def is_place(self, p, env):
        r = self.place_root(p)
        return (r.kind == "var" and r.name in env) or (r.kind == "self" and "self" in env)

    def write(self, p, new, new_ty, env, frame, k, node):
        """lines that store the term `new` into the place `p`, then `k(env)`"""
        while p.kind == "paren":
            p = p.e
        if frame.kind == "pure" and self.place_root(p).kind == "var" and self.place_root(p).name in getattr(frame, "captured", ()):
            fail(self.w(node), "a write to a captured variable inside this closure is outside the translated subset")
        if p.kind in ("var", "self"):
            name = "self" if p.kind == "self" else p.name
            if name not in env:
                fail(self.w(node), f"unknown variable `{name}`")
            if not env[name].mut:
                fail(self.w(node), f"a write to `{name}`, which is not `mut`")
            if not seq_same(env[name].ty, new_ty):
                fail(self.w(node), f"type mismatch: {seq_show(env[name].ty)} vs {seq_show(new_ty)}")
            if frame.kind != "pure":
                self.effects += 0
            return [f"let {lname(name)} := {new}"] + k(env)
        if p.kind == "field":
            def got(tp, typ, env2):
                typ = seq_unref(typ)
                fty = self.field_ty(typ, p.name, p)
                if not seq_same(fty, new_ty):
                    fail(self.w(node), f"type mismatch: field `{p.name}` is {seq_show(fty)}, value {seq_show(new_ty)}")
                return self.write(p.e, f"{{ {tp} with {lname(p.name)} := {new} }}", typ, env2, frame, k, node)
            return self.cg(p.e, env, frame, got)
        if p.kind == "index":
            def gi(ti, tyi, env2):
                if seq_unref(tyi) != S_USZ:
                    fail(self.w(p), f"an index of type {seq_show(tyi)}")

                def gv(tv, tyv, env3):
                    tyv = seq_unref(tyv)
                    if tyv[0] != "list" or not seq_same(tyv[1], new_ty):
                        fail(self.w(node), f"a write through an index into {seq_show(tyv)}")
                    self.effects += 1
                    return [f"bnd (vecIdx {atom(tv)} {atom(ti)}) fun _ =>"] + self.write(p.e, f"vecSet {atom(tv)} {atom(ti)} {atom(new)}", tyv, env3, frame, k, node)
                return self.cg(p.e, env2, frame, gv)
            return self.cg(p.idx, env, frame, gi)
        fail(self.w(node), "a write to something that is not a `mut` local, `self`, or a field / element of one")

    def field_ty(self, ty, name, node):
        ty = seq_unref(ty)
        if ty is not None and ty[0] == "range" and name in ("start", "end"):
            return ty[1]
        if ty is not None and ty[0] == "st":
            for fn, ft in self.fields[ty[1]]:
                if fn == name:
                    return ft
        fail(self.w(node), f"field `{name}` of {seq_show(ty)} is outside the translated subset")

    def assign(self, s, env, frame, rest):
        if not self.is_place(s.place, env):
            fail(self.w(s), "assignment to something that is not a `mut` local, `self`, or a field / element of one")

        def got(term, ty, env2):
            if s.op is None:
                return self.write(s.place, term, ty, env2, frame, rest, s)
            if s.op != "+" or seq_unref(ty) != S_USZ:
                fail(self.w(s), f"`{s.op}=` is translated on `usize` with `+` only")

            def old(t0, ty0, env3):
                if seq_unref(ty0) != S_USZ:
                    fail(self.w(s), "`+=` on a non-usize place")
                v = self.fresh()
                self.effects += 1
                return [f"bnd (add .usize {self.site(s)} {atom(t0)} {atom(term)}) fun {v} =>"] + self.write(s.place, v, S_USZ, env3, frame, rest, s)
            return self.cg(s.place, env2, frame, old)
        return self.cg(s.e, env, frame, got)

    def while_(self, s, env, frame, rest):
        if frame.kind == "pure":
            fail(self.w(s), "a loop inside a closure is outside the translated subset")
        used = set()
        seq_idents(s, used)
        if self.has_self(s):
            used.add("self")
        self.fuel = True
        fixed = [n for n in env if not env[n].mut and n in used]
        state = [n for n in env if env[n].mut]
        # the continuation of an `if` is generated once per branch: the same loop met again (same variables) is the same definition
        cache = self.__dict__.setdefault("loops", {})
        sig_ = (tuple(fixed), tuple(state), tuple(repr(env[n].ty) for n in fixed + state))
        again_only = id(s) in cache and cache[id(s)][1] == sig_
        if id(s) in cache and not again_only:
            fail(self.w(s), "the same loop is reached with two different sets of variables: outside the translated subset")
        if not again_only:
            self.nloop += 1
            cache[id(s)] = (f"{self.lean_name}.loop{self.nloop}", sig_)
        fname = cache[id(s)][0]
        lf = SchedFrame("loop", state, frame.ret_ty)
        env_b = {n: env[n] for n in fixed + state}
        again = f"{fname}⟦EXT⟧ " + " ".join([lname(n) for n in fixed] + ["fuel"] + [lname(n) for n in state])
        exit_ = [f".ok (.next {seq_tuple(state)})"]

        def body_k(term, ty, env2):
            if ty is None or ty[0] != "unit":
                fail(self.w(s), "the loop body has a value")
            return [again]

        def cond(c, tc, env2):
            if s.name is None:
                if seq_unref(tc) != BOOL:
                    fail(self.w(s), "the condition of `while` is not a bool")
                body = self.block(s.body, env2, lf, body_k)
                return [f"if {c} then ("] + ["  " + x for x in body] + ["  )", "else ("] + ["  " + x for x in exit_] + ["  )"]
            tc = seq_unref(tc)
            if tc is None or tc[0] != "opt" or tc[1] is None:
                fail(self.w(s), f"`while let Some(..)` on {seq_show(tc)}")
            if s.name in env2:
                fail(self.w(s), f"the loop variable `{s.name}` shadows another variable")
            body = self.block(s.body, env2, lf, body_k, bind=(s.name, tc[1]))
            return [f"match {c} with", f"| some {lname(s.name)} => ("] + ["  " + x for x in body] + ["  )", "| none => ("] + ["  " + x for x in exit_] + ["  )"]
        body = self.cg(s.c, env_b, lf, cond)
        rty = seq_lty(seq_unref(frame.ret_ty), False)
        sty = seq_tuple_ty([seq_unref(env[n].ty) for n in state])
        ps = [f"({lname(n)} : {seq_lty(seq_unref(env[n].ty))})" for n in fixed] + ["(fuel : Nat)"] + [f"({lname(n)} : {seq_lty(seq_unref(env[n].ty))})" for n in state]
        where = self.w(s)
        what = f"while let Some({s.name}) = .." if s.name else "while .."

        def emit():
            ex = [f"({n} : {t})" for n, t in sorted(self.externs.items())]
            return [f"/-- the loop `{what}` of `{self.node.name}` ({where}); `fuel` = the number of iterations allowed; `.ret v s` = `return v` inside the body, "
                    f"`.next s` = the condition failed; `s` = ({', '.join(state)}) -/",
                    f"def {fname} {SCHED_BINDER} {' '.join(ps + ex)} : R (Flow {rty} ({sty})) :=",
                    "  match fuel with", "  | 0 => .error (.panic loopFuelExhausted)", "  | fuel + 1 =>"] + ["    " + x for x in body]
        if not again_only:
            self.aux.append(emit)
        self.effects += 1
        t, v = self.fresh(), self.fresh()
        pat = seq_tuple(state)
        lines = [f"bnd ({again}) fun {t} =>", f"match {t} with", f"| .ret {v} {pat} => ("]
        lines += ["  " + x for x in self.emit_return(frame, v, frame.ret_ty, s)] + ["  )", f"| .next {pat} =>"]
        return lines + rest(env)

    def has_self(self, node):
        if isinstance(node, Node):
            if node.kind == "self":
                return True
            return any(self.has_self(v) for v in node.__dict__.values())
        if isinstance(node, (list, tuple)):
            return any(self.has_self(v) for v in node)
        if isinstance(node, dict):
            return any(self.has_self(v) for v in node.values())
        return False

    # -- closures
    def closure_fun(self, c, ptys, env, state=()):
        """the Lean function of a closure without effects; `state`: captured `mut` variables the closure may write (they are
        extra leading parameters, and the result is paired with them) -> (term, result type)"""
        if c.kind != "closure" or len(c.params) != len(ptys):
            fail(self.w(c), f"expected a closure with {len(ptys)} parameter(s)")
        fr = SchedFrame("pure")
        env2 = {n: SchedVar(v.ty, n in state, v.blk) for n, v in env.items()}
        fr.captured = [n for n in env if n not in state]
        for (pn, mut), pt in zip(c.params, ptys):
            if pn in env:
                fail(self.w(c), f"the closure parameter `{pn}` shadows another variable")
            env2[pn] = SchedVar(pt, mut, -1)
        before = self.effects
        box = []

        def fin(term, ty, en):
            box.append(ty)
            return [f"({term}, {seq_tuple(state)})" if state else term]
        lines = self.block(c.body, env2, fr, fin)
        if self.effects != before:
            fail(self.w(c), "a closure with an operation that can fail (index, unwrap, arithmetic, loop, call) is outside the translated subset")
        tys = [t for t in box if t is not None]
        rt = None
        for t in box:
            if rt is None or (rt[0] == "opt" and rt[1] is None):
                rt = t if t is not None else rt
            elif t is not None and not seq_same(rt, t):
                fail(self.w(c), f"the branches of the closure have different types: {seq_show(rt)}, {seq_show(t)}")
        if rt is None:
            fail(self.w(c), "the result type of the closure is not determined")
        body = " ".join(x.strip() + (";" if x.strip().startswith("let ") else "") for x in lines)
        ps = [f"({lname(n)} : {seq_lty(seq_unref(env[n].ty))})" for n in state] + [f"({lname(pn)} : {seq_lty(seq_unref(pt))})" for (pn, _), pt in zip(c.params, ptys)]
        return f"(fun {' '.join(ps)} => {body})", rt

    def assigned_captures(self, node, env, acc):
        if isinstance(node, Node):
            if node.kind == "assign":
                r = self.place_root(node.place)
                if r.kind == "var" and r.name in env:
                    acc.add(r.name)
            if node.kind == "refmut":
                r = self.place_root(node.e)
                if r.kind == "var" and r.name in env:
                    acc.add(r.name)
            for v in node.__dict__.values():
                self.assigned_captures(v, env, acc)
        elif isinstance(node, (list, tuple)):
            for v in node:
                self.assigned_captures(v, env, acc)
        elif isinstance(node, dict):
            for v in node.values():
                self.assigned_captures(v, env, acc)
        return acc

    # -- expressions: `k(term, type, env)` continues with the value
    def cg(self, e, env, frame, k):
        kind, w = e.kind, self.w(e)
        if kind == "paren":
            return self.cg(e.e, env, frame, lambda t, ty, en: k(atom(t), ty, en))
        if kind in ("ref", "deref"):
            return self.cg(e.e, env, frame, k)  # a shared reference to a value is the value
        if kind == "var":
            if e.name not in env:
                fail(w, f"unknown variable `{e.name}`")
            return k(lname(e.name), env[e.name].ty, env)
        if kind == "self":
            if "self" not in env:
                fail(w, "`self` in a function without receiver")
            return k("self", env["self"].ty, env)
        if kind == "tmpvar":
            return k(e.term, e.ty, env)
        if kind == "bool":
            return k("true" if e.value else "false", BOOL, env)
        if kind == "lit":
            if e.suffix not in (None, "usize"):
                fail(w, "an integer literal that is not a `usize` is outside the translated subset (schedule functions)")
            return k(str(e.value), S_USZ, env)
        if kind == "none":
            if getattr(e, "result", False):
                fail(w, "`Err(..)` is outside the translated subset")
            return k("none", T("opt", None), env)
        if kind == "some":
            if getattr(e, "result", False):
                fail(w, "`Ok(..)` is outside the translated subset")
            return self.cg(e.e, env, frame, lambda t, ty, en: k(f"some {atom(t)}", T("opt", seq_unref(ty)), en))
        if kind == "range":
            if e.incl:
                fail(w, "`..=` is outside the translated subset (schedule functions)")
            return self.cg(e.l, env, frame, lambda a, ta, en: self.cg(e.r, en, frame, lambda b, tb, en2: k(f"Range.mk {atom(a)} {atom(b)}", T("range", seq_unref(ta)), en2)
                           if seq_same(ta, tb) and seq_unref(ta) == S_TIME else fail(w, f"a range of {seq_show(ta)} .. {seq_show(tb)}")))
        if kind == "variant":
            path = f"{e.enum}::{e.name}"
            if e.enum == "Self":
                if e.name not in self.consts:
                    fail(w, f"`Self::{e.name}` is not an associated constant of the form `const NAME: T = PATH;`")
                path = self.consts[e.name]
            if path not in SCHED_CONSTS:
                fail(w, f"constant `{path}` is outside the translated subset")
            tk_, pname = SCHED_CONSTS[path]
            need = path.split("::")[0]
            if not any(n == need for _, n in self.uses):
                fail(w, f"`{need}` is not imported by the file")
            return k(self.ext(pname, seq_lty(T(tk_))), T(tk_), env)
        if kind == "field":
            return self.cg(e.e, env, frame, lambda t, ty, en: k(f"{atom(t)}.{lname(e.name)}", self.field_ty(ty, e.name, e), en))
        if kind == "index":
            def gi(ti, tyi, en):
                if seq_unref(tyi) != S_USZ:
                    fail(w, f"an index of type {seq_show(tyi)}")

                def gv(tv, tyv, en2):
                    tyv = seq_unref(tyv)
                    if tyv is None or tyv[0] != "list":
                        fail(w, f"an index into {seq_show(tyv)}")
                    v = self.fresh()
                    self.effects += 1
                    return [f"bnd (vecIdx {atom(tv)} {atom(ti)}) fun {v} =>"] + k(v, tyv[1], en2)
                return self.cg(e.e, en, frame, gv)
            # Rust evaluates the indexed place first, then the index; both are without effects other than a panic here
            return self.cg(e.idx, env, frame, gi)
        if kind == "structlit":
            name = self.impl_ty if e.name == "Self" else e.name
            if name not in self.fields:
                fail(w, f"constructor `{e.name} {{ .. }}` is outside the translated subset")
            decl = self.fields[name]
            if sorted(fn for fn, _ in e.fields) != sorted(fn for fn, _ in decl):
                fail(w, f"`{e.name} {{ .. }}` does not give exactly the fields of the struct")

            def go(i, acc, en):
                if i == len(e.fields):
                    return k(f"{{ {', '.join(f'{lname(fn)} := {t}' for fn, t in acc)} : {seq_lty(S_ST(name))} }}", S_ST(name), en)
                fn, fe = e.fields[i]
                want = dict(decl)[fn]

                def got(t, ty, en2):
                    if not seq_same(ty, want):
                        fail(w, f"type mismatch: field `{fn}` is {seq_show(want)}, value {seq_show(ty)}")
                    return go(i + 1, acc + [(fn, t)], en2)
                return self.cg(fe, en, frame, got)
            return go(0, [], env)
        if kind == "not":
            return self.cg(e.e, env, frame, lambda t, ty, en: k(f"!{atom(t)}", BOOL, en) if seq_unref(ty) == BOOL else fail(w, "`!` on a non-bool"))
        if kind == "bin":
            return self.binop(e, env, frame, k)
        if kind == "if":
            def cond(c, tc, en):
                if seq_unref(tc) != BOOL:
                    fail(w, "the condition of `if` is not a bool")
                a = self.block(e.a, en, frame, k)
                b = k("()", UNIT, en) if e.b is None else self.block(e.b, en, frame, k)
                return [f"if {c} then ("] + ["  " + x for x in a] + ["  )", "else ("] + ["  " + x for x in b] + ["  )"]
            return self.cg(e.c, env, frame, cond)
        if kind == "matchopt":
            def scrut(t, ty, en):
                ty = seq_unref(ty)
                if ty is None or ty[0] != "opt" or ty[1] is None:
                    fail(w, f"`match .. {{ None => .., Some(x) => .. }}` on {seq_show(ty)}")
                name, sb = [(a[1], a[2]) for a in e.arms if a[0] == "some"][0]
                if name in en:
                    fail(w, f"`{name}` shadows another variable")
                a = self.block(sb, en, frame, k, bind=(name, ty[1]))
                b = self.block([a[2] for a in e.arms if a[0] == "none"][0], en, frame, k)
                return [f"match {t} with", f"| some {lname(name)} => ("] + ["  " + x for x in a] + ["  )", "| none => ("] + ["  " + x for x in b] + ["  )"]
            return self.cg(e.scrut, env, frame, scrut)
        if kind == "blockexpr":
            return self.block(e.b, env, frame, k)
        if kind == "return":
            return self.cg(e.e, env, frame, lambda t, ty, en: self.emit_return(frame, t, ty, e))
        if kind == "call":
            return self.call(e, env, frame, k)
        if kind == "method":
            return self.method(e, env, frame, k)
        fail(w, f"this expression ({kind}) is outside the translated subset (schedule functions)")

    def binop(self, e, env, frame, k):
        op, w = e.op, self.w(e)
        if op in ("&&", "||"):
            def lhs(a, ta, en):
                box = []
                before = self.effects
                r = self.cg(e.r, en, frame, lambda b, tb, en2: box.append((b, tb)) or [])
                if r or len(box) != 1 or self.effects != before:
                    fail(w, f"an operand of `{op}` with effects is outside the translated subset")
                b, tb = box[0]
                if seq_unref(ta) != BOOL or seq_unref(tb) != BOOL:
                    fail(w, f"`{op}` on non-bool operands")
                return k(f"({a} {op} {b})", BOOL, en)
            return self.cg(e.l, env, frame, lhs)

        def lhs(a, ta, en):
            def rhs(b, tb, en2):
                ua, ub = seq_unref(ta), seq_unref(tb)
                if op == "+":
                    if ua != S_USZ or ub != S_USZ:
                        fail(w, "`+` is translated on `usize` only (schedule functions)")
                    v = self.fresh()
                    self.effects += 1
                    return [f"bnd (add .usize {self.site(e)} {atom(a)} {atom(b)}) fun {v} =>"] + k(v, S_USZ, en2)
                if op in ("<", "<=", ">", ">="):
                    if not seq_same(ua, ub) or ua not in (S_USZ, S_TIME):
                        fail(w, f"`{op}` on {seq_show(ua)} and {seq_show(ub)} is outside the translated subset")
                    return k(f"decide ({atom(a)} {op.replace('<=', '≤').replace('>=', '≥')} {atom(b)})", BOOL, en2)
                if op in ("==", "!="):
                    ok = seq_same(ua, ub) and (ua in (S_USZ, S_TIME, S_KIND, BOOL) or (ua[0] == "opt" and (ua[1] or ub[1]) in (S_TIME, S_KIND, S_USZ)))
                    if not ok:
                        fail(w, f"`{op}` on {seq_show(ua)} and {seq_show(ub)} is outside the translated subset")
                    return k(f"decide ({atom(a)} {'=' if op == '==' else '≠'} {atom(b)})", BOOL, en2)
                fail(w, f"operator `{op}` is outside the translated subset (schedule functions)")
            return self.cg(e.r, en, frame, rhs)
        return self.cg(e.l, env, frame, lhs)

    def args(self, es, env, frame, k, acc=None):
        acc = acc or []
        if len(acc) == len(es):
            return k(acc, env)
        return self.cg(es[len(acc)], env, frame, lambda t, ty, en: self.args(es, en, frame, k, acc + [(t, ty)]))

    def imported(self, mod, name):
        return (mod, name) in self.uses

    def call(self, e, env, frame, k):
        w, path = self.w(e), e.path
        p = "::".join(path)
        if p in ("std::cmp::max", "std::cmp::min") or (p in ("max", "min") and self.imported("std::cmp", p)):
            fn = "cmpMax" if path[-1] == "max" else "cmpMin"

            def got(a, en):
                if len(a) != 2 or not seq_same(a[0][1], a[1][1]) or seq_unref(a[0][1]) not in (S_TIME, S_USZ):
                    fail(w, f"`{path[-1]}` takes two values of an ordered type")
                return k(f"{fn} {atom(a[0][0])} {atom(a[1][0])}", seq_unref(a[0][1]), en)
            return self.args(e.args, env, frame, got)
        if p == "std::mem::take" or (p == "take" and self.imported("std::mem", "take")):
            if len(e.args) != 1 or e.args[0].kind != "refmut" or not self.is_place(e.args[0].e, env):
                fail(w, "`take` needs `&mut place`")
            place = e.args[0].e

            def old(t, ty, en):
                if seq_unref(ty) != S_COMM:
                    fail(w, f"`take` of a {seq_show(ty)} is outside the translated subset")
                v = self.fresh()
                d = self.ext("ext_comments_default", "Comments")
                return [f"let {v} := {t}"] + self.write(place, d, S_COMM, en, frame, lambda en2: k(v, S_COMM, en2), e)
            return self.cg(place, env, frame, old)
        if p == "UniqueSortedVec::new":
            if e.args or not self.imported("opening_hours_syntax::sorted_vec", "UniqueSortedVec"):
                fail(w, "`UniqueSortedVec::new()`")
            return k(self.ext("ext_comments_new", "Comments"), S_COMM, env)
        if len(path) == 2 and (path[0] in SCHED_STRUCTS or path[0] == "Self"):
            ty = self.impl_ty if path[0] == "Self" else path[0]
            return self.call_translated(e, ty, path[1], None, e.args, env, frame, k)
        fail(w, f"call of `{p}`, which is not translated (schedule functions)")

    def call_translated(self, e, ty, name, recv, args, env, frame, k):
        """a call of a translated function (the generated definition, its named parameters passed on by name), of the
        function being translated (recursion: one unit of fuel), or of an untranslated one of SCHED_FN_HOLES"""
        w = self.w(e)
        if frame.kind == "pure":
            fail(w, "a call inside a closure is outside the translated subset")
        rec = (ty == self.impl_ty and name == self.node.name)
        if rec:
            f = self.node
            sig = dict(has_self=f.has_self, mut_self=f.mut_self, params=[pt for _, pt, _ in f.params], ret=f.ret, externs=None, fuel=True)
            self.recursive = True
        elif (ty, name) in self.sigs:
            sig = self.sigs[(ty, name)]
        else:
            fail(w, f"call of `{ty}::{name}`, which is not a translated function")
        if sig["mut_self"]:
            if recv is None or recv.kind != "self" or not env["self"].mut:
                fail(w, f"the `&mut self` method `{name}` is translated only when called on `self`")
        if (recv is not None) != sig["has_self"]:
            fail(w, f"`{ty}::{name}`: receiver mismatch")
        all_args = ([recv] if recv is not None else []) + list(args)
        want = ([S_ST(ty)] if recv is not None else []) + sig["params"]
        if len(all_args) != len(want):
            fail(w, f"`{name}` takes {len(sig['params'])} argument(s)")

        def got(a, en):
            for (t, tyx), wt in zip(a, want):
                if not seq_same(tyx, wt):
                    fail(w, f"type mismatch in the call of `{name}`: {seq_show(wt)} vs {seq_show(tyx)}")
            if rec:
                named = "⟦EXT⟧"
            else:
                for n, t in sig["externs"].items():
                    self.ext(n, t)
                named = self.ext_args(sig["externs"])
            if sig["fuel"]:
                self.fuel = True
            callee = f"{ty}.{name}{named}" + "".join(" " + atom(t) for t, _ in a) + (" fuel" if sig["fuel"] else "")
            v = self.fresh()
            self.effects += 1
            if sig["mut_self"]:
                return [f"bnd ({callee}) fun {v} =>", f"let self := {v}.2"] + k(f"{v}.1", sig["ret"], en)
            return [f"bnd ({callee}) fun {v} =>"] + k(v, sig["ret"], en)
        return self.args(all_args, env, frame, got)

    def lazy(self, ty):
        return ty is not None and ty[0] == "iter" and ty[-1] == "lazy"

    def method(self, e, env, frame, k):
        w, name, recv = self.w(e), e.name, e.e
        while recv.kind == "paren":
            recv = recv.e

        def nargs(n):
            if len(e.args) != n:
                fail(w, f"`.{name}()` takes {n} argument(s)")
        # methods that write to the place they are called on
        if name in ("next", "pop", "remove", "push", "extend", "sort_unstable_by_key") and self.is_place(recv, env):
            def on_place(t, ty, en):
                ty = seq_unref(ty)
                k0 = ty[0] if ty else None
                if name == "next" and k0 == "iter" and not self.lazy(ty):
                    nargs(0)
                    v = self.fresh()
                    return [f"let {v} := iterNext {atom(t)}"] + self.write(recv, f"{v}.2", ty, en, frame, lambda en2: k(f"{v}.1", T("opt", ty[1]), en2), e)
                if name == "pop" and k0 == "list":
                    nargs(0)
                    v = self.fresh()
                    return [f"let {v} := seqPop {atom(t)}"] + self.write(recv, f"{v}.2", ty, en, frame, lambda en2: k(f"{v}.1", T("opt", ty[1]), en2), e)
                if name == "remove" and k0 == "list":
                    nargs(1)

                    def gi(ti, tyi, en2):
                        if seq_unref(tyi) != S_USZ:
                            fail(w, "`.remove(i)` with an index that is not a usize")
                        v = self.fresh()
                        self.effects += 1
                        return [f"bnd (vecRemove {atom(t)} {atom(ti)}) fun {v} =>"] + self.write(recv, f"{v}.2", ty, en2, frame, lambda en3: k(f"{v}.1", ty[1], en3), e)
                    return self.cg(e.args[0], en, frame, gi)
                if name == "push" and k0 == "list":
                    nargs(1)
                    return self.cg(e.args[0], en, frame, lambda a, ta, en2: self.write(recv, f"{atom(t)} ++ [{a}]", ty, en2, frame, lambda en3: k("()", UNIT, en3), e)
                                   if seq_same(ta, ty[1]) else fail(w, f"`.push(..)` of a {seq_show(ta)}"))
                if name == "extend" and k0 == "list":
                    nargs(1)
                    return self.cg(e.args[0], en, frame, lambda a, ta, en2: self.write(recv, f"{atom(t)} ++ {atom(a)}", ty, en2, frame, lambda en3: k("()", UNIT, en3), e)
                                   if seq_unref(ta)[0] in ("iter", "list") and not self.lazy(seq_unref(ta)) and seq_same(seq_unref(ta)[1], ty[1]) else fail(w, f"`.extend(..)` of a {seq_show(ta)}"))
                if name == "sort_unstable_by_key" and k0 == "list":
                    nargs(1)
                    c = e.args[0]
                    ok = c.kind == "closure" and len(c.params) == 1 and not c.body.stmts and c.body.tail is not None
                    if ok:
                        b, x = c.body.tail, c.params[0][0]
                        ok = b.kind == "field" and b.name == "start" and b.e.kind == "field" and b.e.name == "range" and b.e.e.kind == "var" and b.e.e.name == x
                    if not ok or ty[1] != S_ST("TimeRange") or frame.kind != "fn":
                        fail(w, "the argument of `sort_unstable_by_key` has to be `|x| x.range.start` on a `Vec<TimeRange>` (an EXTERN whose contract is: sorted by that key)")
                    lt = seq_lty(ty, False)
                    x = self.ext("ext_sort_unstable_by_key_range_start", f"{lt} → {lt}")
                    return self.write(recv, f"{x} {atom(t)}", ty, en, frame, lambda en2: k("()", UNIT, en2), e)
                fail(w, f"method `.{name}()` on {seq_show(ty)} is outside the translated subset (schedule functions)")
            return self.cg(recv, env, frame, on_place)
        # a call of a translated method (or of the function itself)
        def on_any(t, ty, en):
            ty0 = seq_unref(ty)
            if ty0 is not None and ty0[0] == "st" and ((ty0[1], name) in self.sigs or (ty0[1] == self.impl_ty and name == self.node.name)):
                fake = Node("self", e.line) if recv.kind == "self" else Node("tmpvar", e.line, term=t, ty=ty0)
                return self.call_translated(e, ty0[1], name, fake, e.args, en, frame, k)
            return on(t, ty, en)

        def on(t, ty, en):
            ty = seq_unref(ty)
            k0 = ty[0] if ty else None
            elem = ty[1] if k0 in ("list", "iter", "intoiter", "opt") else None
            if name == "into_iter" and k0 in ("intoiter", "list", "iter"):
                nargs(0)
                return k(t, T("iter", elem), en)
            if name == "iter" and k0 == "list":
                nargs(0)
                return k(t, T("iter", elem), en)
            if name == "cloned" and k0 == "iter":
                nargs(0)
                return k(t, T("iter", elem, "lazy"), en)
            if name == "peekable" and k0 == "iter" and not self.lazy(ty):
                nargs(0)
                return k(t, ty, en)
            if name == "clone" and k0 in ("acomm", "atime", "akind", "st"):
                nargs(0)
                return k(t, ty, en)
            if name == "collect" and k0 == "iter":
                nargs(0)
                return k(t, T("list", elem), en)
            if name in ("filter", "map", "all") and k0 == "iter":
                nargs(1)
                f, rt = self.closure_fun(e.args[0], [elem], en)
                if name in ("filter", "all") and seq_unref(rt) != BOOL:
                    fail(w, f"the closure of `.{name}()` does not return a bool")
                if name == "all":
                    return k(f"List.all {atom(t)} {f}", BOOL, en)
                return k(f"List.{name} {f} {atom(t)}", T("iter", elem if name == "filter" else seq_unref(rt), "lazy"), en)
            if name == "filter_map" and k0 == "iter":
                nargs(1)
                state = sorted(self.assigned_captures(e.args[0].body, en, set())) if e.args[0].kind == "closure" else []
                for n in state:
                    if not en[n].mut:
                        fail(w, f"the closure writes to `{n}`, which is not `mut`")
                f, rt = self.closure_fun(e.args[0], [elem], en, state)
                rt = seq_unref(rt)
                if rt[0] != "opt" or rt[1] is None:
                    fail(w, "the closure of `.filter_map()` does not return an `Option`")
                if not state:
                    return k(f"List.filterMap {f} {atom(t)}", T("iter", rt[1], "lazy"), en)
                if len(state) != 1:
                    fail(w, "a `filter_map` closure writing to two captured variables is outside the translated subset")
                # the chain must be collected at once (checked by `let`: a lazy iterator cannot be bound); the captured
                # variable is threaded through the elements in order
                v = self.fresh()
                return [f"let {v} := filterMapS {f} {lname(state[0])} {atom(t)}", f"let {lname(state[0])} := {v}.2"] + k(f"{v}.1", T("iter", rt[1], "lazy"), en)
            if name == "peek" and k0 == "iter" and not self.lazy(ty):
                nargs(0)
                return k(f"List.head? {atom(t)}", T("opt", elem), en)
            if name == "last" and k0 == "list":
                nargs(0)
                return k(f"vecLast {atom(t)}", T("opt", elem), en)
            if name == "len" and k0 == "list":
                nargs(0)
                return k(f"vecLen {atom(t)}", S_USZ, en)
            if name == "is_empty" and k0 == "list":
                nargs(0)
                return k(f"List.isEmpty {atom(t)}", BOOL, en)
            if name == "map" and k0 == "opt" and elem is not None:
                nargs(1)
                f, rt = self.closure_fun(e.args[0], [elem], en)
                return k(f"Option.map {f} {atom(t)}", T("opt", seq_unref(rt)), en)
            if name == "unwrap_or" and k0 == "opt" and elem is not None:
                nargs(1)
                return self.cg(e.args[0], en, frame, lambda a, ta, en2: k(f"Option.getD {atom(t)} {atom(a)}", elem, en2)
                               if seq_same(ta, elem) else fail(w, f"`.unwrap_or(..)`: {seq_show(elem)} vs {seq_show(ta)}"))
            if name == "unwrap" and k0 == "opt" and elem is not None:
                nargs(0)
                v = self.fresh()
                self.effects += 1
                return [f"match {t} with", "| none => .error (.panic \"called `Option::unwrap()` on a `None` value\")", f"| some {v} =>"] + k(v, elem, en)
            if name == "union" and k0 == "acomm":
                nargs(1)
                x = self.ext("ext_union", "Comments → Comments → Comments")
                return self.cg(e.args[0], en, frame, lambda a, ta, en2: k(f"{x} {atom(t)} {atom(a)}", S_COMM, en2)
                               if seq_unref(ta) == S_COMM else fail(w, f"`.union(..)` of a {seq_show(ta)}"))
            fail(w, f"method `.{name}()` on {seq_show(ty)} is outside the translated subset (schedule functions)")
        return self.cg(recv, env, frame, on_any)


def sched_struct(tk, rel, name, parser):
    texts = [x.text for x in tk]
    hits = [i for i in range(len(texts) - 2) if texts[i] == "struct" and texts[i + 1] == name and texts[i + 2] == "{"]
    if len(hits) != 1:
        fail(rel, f"`struct {name} {{ .. }}` not found")
    parser.i = hits[0] + 3
    fields = []
    while not parser.at("}"):
        if parser.at("pub"):
            parser.i += 1
            if parser.at("("):
                parser.i = matching(parser.t, parser.i) + 1
        fn = parser.ident()
        parser.eat(":")
        ft = parser.type_()
        if ft is None:
            fail(parser.where(), "field of type `_`")
        fields.append((fn, ft))
        if not parser.at("}"):
            parser.eat(",")
    return fields, tk[hits[0]].line


def sched_section(toks, raw):
    """the Lean text (lines) of the SCHED_TARGETS; `toks(rel)` = the tokens of a file without attributes, `raw(rel)` with"""
    tk = toks(F_SCHED)
    uses = file_uses(tk)
    for imp in sorted(SCHED_IMPORTS):
        if imp not in uses:
            fail(F_SCHED, f"`use {imp[0]}::{imp[1]};` not found: the name `{imp[1]}` is read as that item")
    for name, (_, _, rel, need) in SCHED_ABSTRACT.items():
        toks(rel)
        got = derives_of(raw(rel), name)
        if not need <= got:
            fail(rel, f"`{name}` is an abstract ordered / comparable type in schedule.rs: it has to derive {sorted(need)}, found {sorted(got)}")
    texts = [x.text for x in tk]
    L = ["/-! ### [schedule extension] opening-hours/src/schedule.rs -/", "", "namespace Sched", ""]
    structs = set(SCHED_STRUCTS) | set(SCHED_ABSTRACT) | {"UniqueSortedVec"}
    fields = {}
    for name in SCHED_STRUCTS:
        p = SchedParser(tk, F_SCHED, structs, uses=std_uses(tk))
        fields[name], line = sched_struct(tk, F_SCHED, name, p)
        L += [f"/-- `struct {name}` ({F_SCHED}:{line}) -/", f"structure {name} (Time Kind Comments : Type) where"]
        L += [f"  {lname(fn)} : {seq_lty(ft)}" for fn, ft in fields[name]] + [""]
    sigs = {}
    for impl_ty, trait, rname in SCHED_TARGETS:
        where = find_impl_fns(tk, F_SCHED, impl_ty, trait, [rname])
        p = SchedParser(tk, F_SCHED, structs, uses=std_uses(tk))
        p.self_t = S_ST(impl_ty)
        p.item_t = None
        consts = {}
        if trait == "Iterator":
            want = ["type", "Item", "=", "TimeRange", ";"]
            hdr = ["impl", "Iterator", "for", impl_ty, "{"]
            o = [i for i in range(len(texts) - 5) if texts[i : i + 5] == hdr]
            if len(o) != 1 or texts[o[0] + 5 : o[0] + 10] != want:
                fail(F_SCHED, f"`impl Iterator for {impl_ty} {{ type Item = TimeRange; ..` not found")
            p.item_t = S_ST("TimeRange")
        # associated constants `const NAME: T = A::B;` of the inherent impl
        hdr = ["impl", impl_ty, "{"]
        for o in [i for i in range(len(texts) - 3) if texts[i : i + 3] == hdr]:
            end = matching(tk, o + 2)
            depth = 0
            for i in range(o + 3, end):
                if texts[i] == "{":
                    depth += 1
                elif texts[i] == "}":
                    depth -= 1
                elif depth == 0 and texts[i] == "const":
                    if texts[i + 2] != ":" or texts[i + 4] != "=" or texts[i + 6] != "::" or texts[i + 8] != ";":
                        fail(f"{F_SCHED}:{tk[i].line}", "an associated constant that is not `const NAME: T = A::B;` is outside the translated subset")
                    consts[texts[i + 1]] = f"{texts[i + 5]}::{texts[i + 7]}"
        p.i = where[rname]
        node = p.seq_fn()
        g = SchedGen(F_SCHED, impl_ty, node, S_ST(impl_ty), fields, sigs, uses, consts)
        L += g.gen() + [""]
        sigs[(impl_ty, rname)] = dict(has_self=node.has_self, mut_self=node.mut_self, params=[pt for _, pt, _ in node.params], ret=node.ret,
                                      externs=dict(g.externs), fuel=g.fuel)
    SCHED_EXPORT.update(sigs=sigs, fields=fields)  # [eval extension] hook
    L += ["end Sched", ""]
    return L


# ------------------------------------------------------------------------------------------------
# [dated2 extension] fifth increment: the interval consumers of opening-hours/src/filter/date_filter.rs (DESIGN §8.9,
# notes/RS2LEAN5-dated2.md).  `next_change_from_intervals`, `is_open_from_intervals`: free functions whose parameter
# `mut intervals: impl Iterator<Item = RangeInclusive<NaiveDate>>` is the LIST of the items (already evaluated: the
# theorems about the callers have to say how the items are produced).  A front end on top of the schedule one
# (`Dated2Parser` extends `SchedParser`, `Dated2Gen` extends `SchedGen`); here `NaiveDate` is concrete: `Time` is an
# abbreviation of `Int` (the day number, as in chrono mode) inside `namespace Dated2`, chrono's `succ_opt` and the crate
# constant `DATE_END.date()` have their RustChrono.lean meaning.  New constructs:
#  * `let Some(x) = e else { ..; return v };` followed by the rest of the block: `match e with | none => else-block |
#    some x => rest` (the else-block has to END with `return`: it diverges, as rustc requires);
#  * `it.find(|x| pure bool)` on an iterator-of-a-list VARIABLE that is not mentioned anywhere else in the function (what
#    `find` leaves in the iterator is dropped): `List.find?`;
#  * `r.start()`, `r.end()`, `r.contains(&x)` on a `RangeInclusive<NaiveDate>`, `start..=end` of two dates;
#  * `d.succ_opt()` on a date, `DATE_END.date()` (imports checked).
# Anything else is an error naming file:line, as everywhere.
D2_TARGETS = ["is_open_from_intervals", "next_change_from_intervals", "is_open_from_bounds", "next_change_from_bounds"]
# untranslated functions of date_filter.rs called by the targets: name -> (item types of the `impl IntoIterator` arguments,
# result type, Lean type of the NAMED function parameter `ext_<name>` of the generated definition)
D2_FN_HOLES = {"intervals_from_bounds": ([S_TIME, S_TIME], T("iter", T("rangeincl", S_TIME)), "List Time → List Time → List (RangeInclusive Time)")}
D2_IMPORTS = {("chrono", "NaiveDate"), ("crate::opening_hours", "DATE_END"), ("std::ops", "RangeInclusive")}
D2_BINDER = ""

_seq_lty_before_d2, _seq_show_before_d2 = seq_lty, seq_show


def seq_lty(t, top=True):  # noqa: F811  [dated2 extension] RangeInclusive<T>
    if t is not None and t[0] == "rangeincl":
        s_ = f"RangeInclusive {seq_lty(t[1], False)}"
        return s_ if top else f"({s_})"
    return _seq_lty_before_d2(t, top)


D2_ACTIVE = [False]  # inside `dated2_section` the ordered abstract type of the schedule front end is `NaiveDate`


def seq_show(t):  # noqa: F811
    if t is not None and t[0] == "rangeincl":
        return f"RangeInclusive<{seq_show(t[1])}>"
    if t is not None and t[0] == "atime" and D2_ACTIVE[0]:
        return "NaiveDate"
    if t is not None and t[0] in ("iter", "intoiter") and D2_ACTIVE[0]:
        return f"impl {'Into' if t[0] == 'intoiter' else ''}Iterator<Item = {seq_show(t[1])}>"
    return _seq_show_before_d2(t)


class Dated2Parser(SchedParser):
    def type_(self):
        tk = self.peek()
        if tk.text == "NaiveDate":
            self.i += 1
            return S_TIME
        if tk.text == "RangeInclusive":
            self.i += 1
            self.need_use("RangeInclusive", tk)
            self.eat("<")
            inner = self.type_()
            self.close_angle()
            return T("rangeincl", inner)
        return SchedParser.type_(self)

    def seq_let(self):
        if self.peek(1).text == "Some" and self.peek(2).text == "(":
            line = self.eat("let").line
            name, by_ref, _ = self.some_pattern()
            if by_ref:
                fail(f"{self.f}:{line}", "`ref` in a `let .. else` pattern is outside the translated subset")
            self.eat("=")
            e = self.expr(nostruct=True)
            if not self.at("else"):
                fail(self.where(), "`let Some(..) = e;` without `else` is outside the translated subset")
            self.i += 1
            els = self.block()
            self.eat(";")
            if not els.stmts or els.stmts[-1].kind != "ret" or els.tail is not None:
                fail(f"{self.f}:{els.line}", "the `else` block of `let .. else` has to end with `return ..;`")
            return Node("letsomeelse", line, name=name, e=e, els=els)
        return SchedParser.seq_let(self)

    def block(self):
        b = SchedParser.block(self)
        # `let Some(x) = e else { .. return v; }; REST` is `match e { None => { .. return v; }, Some(x) => { REST } }`
        for i, s_ in enumerate(b.stmts):
            if s_.kind == "letsomeelse":
                rest = Node("block", s_.line, stmts=b.stmts[i + 1:], tail=b.tail)
                m = Node("matchopt", s_.line, scrut=s_.e, arms=[("none", None, s_.els), ("some", s_.name, rest)])
                return Node("block", b.line, stmts=b.stmts[:i], tail=m)
        return b


class Dated2Gen(SchedGen):
    def count_ident(self, node, name):
        if isinstance(node, Node):
            n = 1 if (node.kind == "var" and node.name == name) else 0
            return n + sum(self.count_ident(v, name) for v in node.__dict__.values())
        if isinstance(node, (list, tuple)):
            return sum(self.count_ident(v, name) for v in node)
        return 0

    def cg(self, e, env, frame, k):
        if e.kind == "range" and e.incl:
            w = self.w(e)
            return self.cg(e.l, env, frame, lambda a, ta, en: self.cg(e.r, en, frame, lambda b, tb, en2: k(f"RangeInclusive.mk {atom(a)} {atom(b)}", T("rangeincl", S_TIME), en2)
                           if seq_unref(ta) == S_TIME and seq_unref(tb) == S_TIME else fail(w, f"an inclusive range of {seq_show(ta)} ..= {seq_show(tb)}")))
        return SchedGen.cg(self, e, env, frame, k)

    def call(self, e, env, frame, k):
        w, p = self.w(e), "::".join(e.path)
        if p in D2_FN_HOLES:
            # an untranslated function of the same file: a NAMED function parameter (what it does is outside the definition)
            pts, rt, lt = D2_FN_HOLES[p]
            if frame.kind == "pure":
                fail(w, "a call inside a closure is outside the translated subset")

            def got(a, en):
                if len(a) != len(pts) or any(seq_unref(ta) is None or seq_unref(ta)[0] not in ("intoiter", "iter", "list") or seq_unref(ta)[1] != pt or self.lazy(seq_unref(ta))
                                             for (_, ta), pt in zip(a, pts)):
                    fail(w, f"type mismatch in the call of the untranslated `{p}`")
                x = self.ext("ext_" + p, lt)
                return k(f"{x} " + " ".join(atom(t) for t, _ in a), rt, en)
            return self.args(e.args, env, frame, got)
        if len(e.path) == 1 and ("date_filter", p) in self.sigs:
            return self.call_translated(e, "date_filter", p, None, e.args, env, frame, k)
        return SchedGen.call(self, e, env, frame, k)

    def method(self, e, env, frame, k):
        w, name, recv = self.w(e), e.name, e.e
        while recv.kind == "paren":
            recv = recv.e
        if name == "date" and recv.kind == "var" and recv.name == "DATE_END" and "DATE_END" not in env:
            if e.args:
                fail(w, "`DATE_END.date()` takes no argument")
            if ("crate::opening_hours", "DATE_END") not in self.uses:
                fail(w, "`DATE_END` is read as `crate::opening_hours::DATE_END`, but the file does not import it from there")
            return k("Chrono.DATE_END", S_TIME, env)
        if name in ("find", "start", "end", "contains", "succ_opt"):
            def on(t, ty, en):
                ty = seq_unref(ty)
                k0 = ty[0] if ty else None
                if name == "find" and k0 == "iter" and not self.lazy(ty):
                    if recv.kind != "var" or not en[recv.name].mut or self.count_ident(self.node.body, recv.name) != 1:
                        fail(w, "`.find(..)` is translated on a `mut` iterator variable that is not mentioned anywhere else (what is left of it is dropped)")
                    if len(e.args) != 1:
                        fail(w, "`.find()` takes one closure")
                    f, rt = self.closure_fun(e.args[0], [ty[1]], en)
                    if seq_unref(rt) != BOOL:
                        fail(w, "the closure of `.find()` does not return a bool")
                    return k(f"List.find? {f} {atom(t)}", T("opt", ty[1]), en)
                if name in ("start", "end") and k0 == "rangeincl":
                    if e.args:
                        fail(w, f"`.{name}()` takes no argument")
                    return k(f"{atom(t)}.{lname(name)}", ty[1], en)
                if name == "contains" and k0 == "rangeincl" and ty[1] == S_TIME:
                    if len(e.args) != 1:
                        fail(w, "`.contains()` takes one argument")
                    return self.cg(e.args[0], en, frame, lambda a, ta, en2: k(f"(decide ({atom(t)}.start ≤ {atom(a)}) && decide ({atom(a)} ≤ {atom(t)}.«end»))", BOOL, en2)
                                   if seq_unref(ta) == S_TIME else fail(w, f"`.contains(..)` of a {seq_show(ta)}"))
                if name == "succ_opt" and ty == S_TIME:
                    if e.args:
                        fail(w, "`.succ_opt()` takes no argument")
                    return k(f"Chrono.succ_opt {atom(t)}", T("opt", S_TIME), en)
                fail(w, f"method `.{name}()` on {seq_show(ty)} is outside the translated subset (dated2 functions)")
            return self.cg(recv, env, frame, on)
        return SchedGen.method(self, e, env, frame, k)


def dated2_section(toks):
    """the Lean text (lines) of the D2_TARGETS"""
    global SCHED_BINDER
    tk = toks(F_DF)
    uses = file_uses(tk)
    for imp in sorted(D2_IMPORTS):
        if imp not in uses:
            fail(F_DF, f"`use {imp[0]}::{imp[1]};` not found: the name `{imp[1]}` is read as that item")
    L = ["/-! ### [dated2 extension] the interval consumers of opening-hours/src/filter/date_filter.rs -/", "", "namespace Dated2", "",
         "/-- `chrono::NaiveDate`: its day number (OH/Model/RustChrono.lean) -/", "abbrev Time : Type := Int", ""]
    saved, SCHED_BINDER = SCHED_BINDER, D2_BINDER
    D2_ACTIVE[0] = True
    sigs = {}
    find_impl_fns(tk, F_DF, None, None, sorted(D2_FN_HOLES))  # the untranslated callees have to be functions of this file
    try:
        for rname in D2_TARGETS:
            where = find_impl_fns(tk, F_DF, None, None, [rname])
            p = Dated2Parser(tk, F_DF, set(), uses=std_uses(tk))
            p.self_t = None
            p.item_t = None
            p.i = where[rname]
            node = p.seq_fn()
            for j, (pn, pt, mut) in enumerate(node.params):
                if pt is not None and pt[0] == "iterret":
                    node.params[j] = (pn, T("iter", pt[1]), mut)  # `impl Iterator<Item = T>` as a parameter: the list of its items
            g = Dated2Gen(F_DF, "date_filter", node, None, {}, sigs, uses, {})
            g.lean_name = rname
            lines = g.gen()
            for n in D2_TARGETS:  # the callee of `call_translated` is `<impl type>.<name>`: free functions here
                lines = [x if x.startswith("/--") else x.replace("(date_filter." + n + " ", "(" + n + " ") for x in lines]
            if set(g.externs) - {"ext_" + n for n in D2_FN_HOLES}:
                fail(F_DF, f"{rname}: unexpected named parameters {sorted(g.externs)}")
            sigs[("date_filter", rname)] = dict(has_self=False, mut_self=False, params=[pt for _, pt, _ in node.params], ret=node.ret,
                                                externs=dict(g.externs), fuel=g.fuel)
            L += [x.replace("  (", " (", 1) if x.startswith("def ") else x for x in lines] + [""]
    finally:
        SCHED_BINDER = saved
        D2_ACTIVE[0] = False
    L += ["end Dated2", ""]
    return L

# ---- end of [dated2 extension] ------------------------------------------------------------------


# [eval extension] fifth increment: the evaluator core of opening-hours/src/opening_hours.rs (notes/RS2LEAN5-eval.md).
# `rule_sequence_schedule_at` and `OpeningHours::schedule_at`: `for x in &vec { .. }` as a structural recursion over the
# vector (state = the `mut` locals), `let (a, b) = e;`, tuples, `match` on a tuple with `Some(x)` / `None` / binder / `_`
# patterns (a Lean `match`, first arm first) or with enum constants and or-patterns (an `if` chain of tests in source
# order whose final `else` is an explicit panic outcome: the theorems prove it unreachable), `Option::filter / map` with
# closures that CALL things (a closed `match`), `.map(Type::method)`, `Option::or`, `as_ref`, `unwrap_or_else(Schedule::new)`,
# `Schedule::default()`, ranges of dates and `contains`, `pred_opt` / `succ_opt`, `DATE_START.date()`.  `NaiveDate` is its
# day number (`Int`, chrono mode); `RuleOperator`, `DaySelector`, `TimeSelector`, `Context<L>` are ABSTRACT (type parameters
# `Op` with `==`, `DaySel`, `TimeSel`, `Ctx`); the structs `RuleSequence`, `OpeningHoursExpression`, `OpeningHours` are
# read from their declarations.  The untranslated callees are NAMED, EFFECTFUL function parameters (`ext_day_selector_filter
# : DaySel → Int → Ctx → R Bool`, ..: a panic inside the callee propagates in Rust's evaluation order), passed BY NAME in
# the theorems; the translated `Schedule::from_ranges / addition / is_always_closed` are CALLED (linked), their named
# parameters passed on.  Same rule: anything else is an error naming file:line.
F_OH = "opening-hours/src/opening_hours.rs"
F_RULES = "opening-hours-syntax/src/rules/mod.rs"
EVAL_STRUCTS = [(F_RULES, "RuleSequence"), (F_RULES, "OpeningHoursExpression"), (F_OH, "OpeningHours")]
# (file, impl header tokens or None for a free function, Rust name) in dependency order
EVAL_TARGETS = [
    (F_OH, None, "rule_sequence_schedule_at"),
    (F_OH, ["impl", "<", "L", ":", "Localize", ">", "OpeningHours", "<", "L", ">"], "schedule_at"),
]
EVAL_TPARAMS = "Time Kind Comments Op DaySel TimeSel Ctx"
EVAL_BINDER = ("{Time Kind Comments Op DaySel TimeSel Ctx : Type} [LT Time] [LE Time] [DecidableLT Time] [DecidableLE Time] [DecidableEq Time] "
               "[DecidableEq Kind] [DecidableEq Op]")
E_DATE, E_OP, E_CTX, E_DSEL, E_TSEL = T("adate"), T("aop"), T("actx"), T("adaysel"), T("atimesel")
EVAL_ABS_LEAN = {"adate": "Int", "aop": "Op", "actx": "Ctx", "adaysel": "DaySel", "atimesel": "TimeSel"}
EVAL_ABS_SHOW = {"adate": "NaiveDate", "aop": "RuleOperator", "actx": "Context<L>", "adaysel": "DaySelector", "atimesel": "TimeSelector"}
# abstract enum whose constants are named parameters: Rust name -> (type, file, derives that must be present)
EVAL_ENUMS = {"RuleOperator": (E_OP, F_RULES, {"PartialEq", "Eq", "Clone", "Copy"}), "RuleKind": (S_KIND, F_RULES, {"PartialEq", "Eq", "Clone", "Copy"})}
SCHED_CONSTS.update({"RuleOperator::Normal": ("aop", "RuleOperator_Normal"), "RuleOperator::Additional": ("aop", "RuleOperator_Additional"),
                     "RuleOperator::Fallback": ("aop", "RuleOperator_Fallback")})
# untranslated free functions of /repo: name -> (module it must be imported from, parameter types, result type)
EVAL_FN_HOLES = {
    "time_selector_intervals_at": ("crate::filter::time_filter", [E_CTX, E_TSEL, E_DATE], T("intoiter", T("range", S_TIME))),
    "time_selector_intervals_at_next_day": ("crate::filter::time_filter", [E_CTX, E_TSEL, E_DATE], T("intoiter", T("range", S_TIME))),
}
# untranslated trait methods: (receiver kind, method) -> (parameter name, (module, trait) that must be imported, parameter types, result)
EVAL_METHOD_HOLES = {
    ("adaysel", "filter"): ("ext_day_selector_filter", ("crate::filter::date_filter", "DateFilter"), [E_DATE, E_CTX], BOOL),
}
EVAL_IMPORTS = {("chrono", "NaiveDate"), ("crate::schedule", "Schedule"), ("crate", "Context"), ("opening_hours_syntax::rules", "RuleSequence"),
                ("opening_hours_syntax::rules", "RuleKind"), ("opening_hours_syntax::rules", "RuleOperator"), ("opening_hours_syntax::rules", "OpeningHoursExpression"),
                ("std::sync", "Arc"), ("crate::localization", "Localize")}
SCHED_EXT_DOC.update({
    "ext_day_selector_filter": "the untranslated `DaySelector::filter(&self, date, ctx)` (`DateFilter`), an effectful function: its panic propagates",
    "ext_time_selector_intervals_at": "the untranslated `time_selector_intervals_at(ctx, time_selector, date)`, collected",
    "ext_time_selector_intervals_at_next_day": "the untranslated `time_selector_intervals_at_next_day(ctx, time_selector, date)`, collected",
})
SCHED_EXPORT = {}  # filled by `sched_section`: the signatures / struct fields of the translated functions of schedule.rs


def E_ST(name):
    return T("est", name)


_seq_lty_before_eval, _seq_show_before_eval = seq_lty, seq_show


def seq_lty(t, top=True):  # noqa: F811  [eval extension]
    k = t[0]
    if k in EVAL_ABS_LEAN:
        return EVAL_ABS_LEAN[k]
    if k == "est":
        s = f"{t[1]} {EVAL_TPARAMS}"
        return s if top else f"({s})"
    if k == "tuple":
        s = " × ".join(seq_lty(x, False) for x in t[1:])
        return s if top else f"({s})"
    return _seq_lty_before_eval(t, top)


def seq_show(t):  # noqa: F811  [eval extension]
    if t is not None and t[0] in EVAL_ABS_SHOW:
        return EVAL_ABS_SHOW[t[0]]
    if t is not None and t[0] == "est":
        return t[1]
    if t is not None and t[0] == "tuple":
        return "(" + ", ".join(seq_show(x) for x in t[1:]) + ")"
    return _seq_show_before_eval(t)


class EvalParser(SchedParser):
    """`SchedParser` plus: the types of the evaluator (`NaiveDate`, `RuleSequence`, `RuleOperator`, `Context<L>`, `Arc<T>`,
    `day::DaySelector`, `time::TimeSelector`), `fn f<L: Localize>`, statements `for x in e { .. }` and `let (a, b) = e;`,
    `match` with tuple / `Some` / `None` / binder / `_` / enum-constant patterns and or-patterns."""

    def type_(self):
        tk = self.peek()
        if tk.text in ("day", "time") and self.peek(1).text == "::":
            want = {"day": "DaySelector", "time": "TimeSelector"}[tk.text]
            self.i += 2
            self.eat(want)
            return E_DSEL if tk.text == "day" else E_TSEL
        if tk.text == "NaiveDate":
            self.i += 1
            return E_DATE
        if tk.text == "RuleOperator":
            self.i += 1
            return E_OP
        if tk.text == "Context":
            for x in ("Context", "<", "L"):
                self.eat(x)
            self.close_angle()
            return E_CTX
        if tk.text == "Arc":
            self.i += 1
            self.eat("<")
            inner = self.type_()
            self.close_angle()
            return inner  # a shared pointer to an immutable value is the value
        if tk.text in [n for _, n in EVAL_STRUCTS]:
            self.i += 1
            return E_ST(tk.text)
        return SchedParser.type_(self)

    def seq_fn(self):
        # `fn NAME<L: Localize>(..)`: the parameter only occurs in `Context<L>`, which is abstract
        if self.peek(2).text == "<":
            got = [self.peek(k).text for k in range(2, 7)]
            if got != ["<", "L", ":", "Localize", ">"]:
                fail(self.where(self.peek(2)), "generic parameters other than `<L: Localize>` are outside the translated subset (evaluator functions)")
            self.t = self.t[: self.i + 2] + self.t[self.i + 7 :]
        return SchedParser.seq_fn(self)

    def seq_let(self):
        if self.peek(1).text == "(" and self.peek(2).kind == "id" and self.peek(3).text == "," and self.peek(4).kind == "id" and self.peek(5).text == ")":
            line = self.eat("let").line
            a, b = self.peek(1).text, self.peek(3).text
            self.i += 5
            self.eat("=")
            e = self.expr()
            self.eat(";")
            return Node("lettuple", line, names=[a, b], e=e)
        return SchedParser.seq_let(self)

    def block(self):
        # as `SchedParser.block`, with the statement `for NAME in e { .. }`
        if not any(self.t[j].text == "for" and self.t[j].kind == "id" for j in range(self.i, matching(self.t, self.i))):
            return SchedParser.block(self)
        line = self.eat("{").line
        stmts, tail = [], None
        while not self.at("}"):
            if tail is not None:
                fail(self.where(), "statement after the tail expression")
            tk = self.peek()
            if self.at("for"):
                self.i += 1
                name = self.ident()
                self.eat("in")
                it = self.expr(nostruct=True)
                stmts.append(Node("exprstmt", tk.line, e=Node("for", tk.line, name=name, it=it, body=self.block())))
                continue
            # one statement, parsed by the inherited grammar on a one-statement block
            sub = self.one_stmt()
            stmts += sub.stmts
            tail = sub.tail
            if tail is not None and not self.at("}"):
                if tail.kind not in ("if", "iflet", "matchpat", "matchopt"):
                    fail(self.where(), "statement after the tail expression")
                stmts.append(Node("exprstmt", tail.line, e=tail))
                tail = None
        self.eat("}")
        return Node("block", line, stmts=stmts, tail=tail)

    def one_stmt(self):
        """the next statement (or the tail expression) as a block, by the inherited `block` on a copy of its tokens"""
        start = self.i
        depth, j = 0, self.i
        while True:
            x = self.t[j]
            if x.kind == "eof":
                fail(self.where(), "unterminated block")
            if x.text in ("{", "(", "[") and x.kind == "op":
                depth += 1
            elif x.text in ("}", ")", "]") and x.kind == "op":
                if depth == 0:
                    break  # the tail expression
                depth -= 1
                if depth == 0 and x.text == "}" and self.t[j + 1].text not in (";", ".", "else", ",", "?") and self.t[start].text in ("if", "while", "match"):
                    j += 1
                    break
            elif x.text == ";" and x.kind == "op" and depth == 0:
                j += 1
                break
            j += 1
        first = self.t[start]
        toks = [Tok("op", "{", first.line)] + self.t[start:j] + [Tok("op", "}", self.t[j - 1].line), Tok("eof", "", self.t[j - 1].line)]
        sub = type(self)(toks, self.f, self.structs, uses=self.uses)
        sub.self_t, sub.item_t = getattr(self, "self_t", None), getattr(self, "item_t", None)
        b = sub.block()
        self.i = j
        return b

    def pattern(self):
        alts = [self.pattern1()]
        while self.at("|"):
            self.i += 1
            alts.append(self.pattern1())
        return alts[0] if len(alts) == 1 else ("or", alts)

    def pattern1(self):
        tk = self.peek()
        if self.at("("):
            self.i += 1
            items = [self.pattern()]
            while self.at(","):
                self.i += 1
                items.append(self.pattern())
            self.eat(")")
            if len(items) < 2:
                fail(self.where(tk), "a parenthesised pattern is outside the translated subset")
            return ("tuple", items)
        if self.at("_"):
            self.i += 1
            return ("wild",)
        if self.at("None"):
            self.i += 1
            return ("none",)
        if self.at("Some"):
            name, by_ref, _ = self.some_pattern()
            if by_ref:
                fail(self.where(tk), "`ref` in a `match` pattern is outside the translated subset")
            return ("some", name)
        if tk.kind != "id":
            fail(self.where(), f"pattern `{tk.text}` is outside the translated subset")
        path = [self.ident()]
        while self.at("::"):
            self.i += 1
            path.append(self.ident())
        if self.at("(") or self.at("{") or self.at("@"):
            fail(self.where(tk), "this pattern is outside the translated subset")
        if len(path) == 1:
            if not re.fullmatch(r"[a-z_][a-z0-9_]*", path[0]) or re.fullmatch(r"tmp\d+|ext_\w+|fuel|self|it_rest", path[0]):
                fail(self.where(tk), f"pattern `{path[0]}` is outside the translated subset")
            return ("bind", path[0])
        if len(path) != 2:
            fail(self.where(tk), f"pattern `{'::'.join(path)}` is outside the translated subset")
        return ("const", "::".join(path))

    def primary(self, nostruct):
        tk = self.peek()
        if tk.kind == "id" and tk.text == "match":
            self.i += 1
            scrut = self.expr(nostruct=True)
            self.eat("{")
            arms = []
            while not self.at("}"):
                pat = self.pattern()
                if self.at("if"):
                    fail(self.where(), "match guards are outside the translated subset (evaluator functions)")
                self.eat("=>")
                if self.at("{"):
                    body = self.block()
                    if self.at(","):
                        self.i += 1
                else:
                    bl = self.peek().line
                    body = Node("block", bl, stmts=[], tail=self.expr())
                    if not self.at("}"):
                        self.eat(",")
                arms.append((pat, body))
            self.eat("}")
            if not arms:
                fail(self.where(tk), "a `match` without arms")
            return Node("matchpat", tk.line, scrut=scrut, arms=arms)
        if tk.kind == "op" and tk.text == "(":
            # `(e)`, `(a, b)`, `(a, b,)` (a trailing comma is allowed)
            self.i += 1
            items = [self.expr()]
            if not self.at(","):
                self.eat(")")
                return Node("paren", tk.line, e=items[0])
            while self.at(","):
                self.i += 1
                if self.at(")"):
                    break
                items.append(self.expr())
            self.eat(")")
            if len(items) < 2:
                fail(self.where(tk), "a tuple of one component is outside the translated subset")
            return Node("tuple", tk.line, items=items)
        return SchedParser.primary(self, nostruct)


def eval_pat_kinds(p, out):
    out.add(p[0])
    if p[0] in ("or", "tuple"):
        for q in p[1]:
            eval_pat_kinds(q, out)
    return out


class EvalGen(SchedGen):
    def __init__(self, fname, impl_ty, node, self_t, fields, sigs, uses, consts, esigs, local_consts):
        SchedGen.__init__(self, fname, impl_ty or "", node, self_t, fields, sigs, uses, consts)
        self.esigs, self.local_consts = esigs, local_consts
        if impl_ty is None:
            self.lean_name = node.name

    def gen(self):
        lines = SchedGen.gen(self)
        if self.nloop_for:
            pass
        return [x.replace(SCHED_BINDER, EVAL_BINDER).replace("/-- `::", "/-- `") for x in lines]

    nloop_for = 0

    def emit_return(self, frame, term, ty, node):
        if frame.kind == "closed":
            fail(self.w(node), "`return` inside a `match` arm / a closure whose value is used is outside the translated subset")
        return SchedGen.emit_return(self, frame, term, ty, node)

    def write(self, p, new, new_ty, env, frame, k, node):
        if frame.kind == "closed":
            fail(self.w(node), "a write inside a `match` arm / a closure whose value is used is outside the translated subset")
        return SchedGen.write(self, p, new, new_ty, env, frame, k, node)

    def while_(self, s, env, frame, rest):
        if frame.kind == "closed":
            fail(self.w(s), "a loop inside a `match` arm / a closure is outside the translated subset")
        return SchedGen.while_(self, s, env, frame, rest)

    def field_ty(self, ty, name, node):
        t = seq_unref(ty)
        if t is not None and t[0] == "est":
            for fn, ft in self.fields[t[1]]:
                if fn == name:
                    return ft
            fail(self.w(node), f"`{t[1]}` has no field `{name}`")
        return SchedGen.field_ty(self, ty, name, node)

    def closed(self, lines, k, ty, env):
        """`lines` compute a value in `R` (a closed sub-computation); bind it and continue"""
        v = self.fresh()
        self.effects += 1
        return ["bnd ("] + ["  " + x for x in lines] + [f"  ) fun {v} =>"] + k(v, ty, env)

    def cg(self, e, env, frame, k):
        kind, w = e.kind, self.w(e)
        if kind == "tuple":
            def got(a, en):
                if any(ty is None or ty[0] == "unit" for _, ty in a):
                    fail(w, "a tuple component of unknown type")
                return k("(" + ", ".join(t for t, _ in a) + ")", T("tuple", *[seq_unref(ty) for _, ty in a]), en)
            return self.args(e.items, env, frame, got)
        if kind == "field" and e.name in ("0", "1"):
            def gt(t, ty, en):
                ty = seq_unref(ty)
                if ty is None or ty[0] != "tuple" or len(ty) != 3:
                    fail(w, f"`.{e.name}` on {seq_show(ty)}")
                return k(f"{atom(t)}.{int(e.name) + 1}", ty[1 + int(e.name)], en)
            return self.cg(e.e, env, frame, gt)
        if kind == "range":
            def lo(a, ta, en):
                if seq_unref(ta) != E_DATE:
                    return SchedGen.cg(self, e, env, frame, k)
                if e.incl:
                    fail(w, "`..=` is outside the translated subset (evaluator functions)")
                return self.cg(e.r, en, frame, lambda b, tb, en2: k(f"Range.mk {atom(a)} {atom(b)}", T("range", E_DATE), en2)
                               if seq_unref(tb) == E_DATE else fail(w, f"a range of {seq_show(ta)} .. {seq_show(tb)}"))
            return self.cg(e.l, env, frame, lo)
        if kind == "ascribe":
            return self.cg(e.e, env, frame, lambda t, ty, en: k(f"({t} : {seq_lty(seq_unref(e.ty))})", seq_unref(e.ty), en)
                           if seq_same(ty, e.ty) else fail(w, f"type mismatch: annotation {seq_show(e.ty)}, value {seq_show(ty)}"))
        if kind == "for":
            return self.for_(e, env, frame, k)
        if kind == "matchpat":
            return self.matchpat(e, env, frame, k)
        return SchedGen.cg(self, e, env, frame, k)

    def block(self, b, env, frame, k, bind=None):
        # `let (a, b) = e;` is `let pair = e; let a = pair.0; let b = pair.1;`
        if any(s.kind == "lettuple" for s in b.stmts):
            stmts = []
            for s in b.stmts:
                if s.kind != "lettuple":
                    stmts.append(s)
                    continue
                pn = f"pair_{s.names[0]}_{s.names[1]}"
                stmts.append(Node("let", s.line, name=pn, ann=None, has_ann=False, e=s.e, mut=False))
                for i, n in enumerate(s.names):
                    stmts.append(Node("let", s.line, name=n, ann=None, has_ann=False, mut=False,
                                      e=Node("field", s.line, e=Node("var", s.line, name=pn), name=str(i))))
            b = Node("block", b.line, stmts=stmts, tail=b.tail)
        if any(s.kind == "let" and s.has_ann and s.ann is not None and s.e.kind != "ascribe" for s in b.stmts):
            # `let x: T = e;`: the variable has the annotated type (`None` alone does not determine it)
            stmts = [Node("let", s.line, name=s.name, ann=s.ann, has_ann=True, mut=s.mut, e=Node("ascribe", s.line, e=s.e, ty=s.ann))
                     if s.kind == "let" and s.has_ann and s.ann is not None and s.e.kind != "ascribe" else s for s in b.stmts]
            b = Node("block", b.line, stmts=stmts, tail=b.tail)
        return SchedGen.block(self, b, env, frame, k, bind)

    # -- `for x in &vec { .. }`: structural recursion over the vector; the state is every `mut` variable in scope
    def for_(self, s, env, frame, k):
        w = self.w(s)
        if frame.kind not in ("fn",):
            fail(w, "a `for` loop inside a loop / closure / `match` arm is outside the translated subset")
        if s.name in env:
            fail(w, f"the loop variable `{s.name}` shadows another variable")
        used = set()
        seq_idents(s.body, used)
        if self.has_self(s.body):
            used.add("self")
        fixed = [n for n in env if not env[n].mut and n in used]
        state = [n for n in env if env[n].mut]
        self.fuel = True
        self.nloop += 1
        fname = f"{self.lean_name}.loop{self.nloop}"
        lf = SchedFrame("loop", state, frame.ret_ty)
        env_b = {n: env[n] for n in fixed + state}
        again = f"{fname}⟦EXT⟧ " + " ".join([lname(n) for n in fixed] + ["fuel", "it_rest"] + [lname(n) for n in state])

        def body_k(term, ty, env2):
            if ty is None or ty[0] != "unit":
                fail(w, "the loop body has a value")
            return [again]

        def src(t, ty, en):
            ty = seq_unref(ty)
            if ty is None or ty[0] != "list":
                fail(w, f"`for .. in` over {seq_show(ty)} is outside the translated subset (a `&Vec<T>` only)")
            elem = ty[1]
            body = self.block(s.body, env_b, lf, body_k, bind=(s.name, elem))
            rty = seq_lty(seq_unref(frame.ret_ty), False)
            sty = seq_tuple_ty([seq_unref(env[n].ty) for n in state])
            ps = [f"({lname(n)} : {seq_lty(seq_unref(env[n].ty))})" for n in fixed] + ["(fuel : Nat)", f"(it_rest : List {seq_lty(elem, False)})"]
            ps += [f"({lname(n)} : {seq_lty(seq_unref(env[n].ty))})" for n in state]

            def emit():
                ex = [f"({n} : {t_})" for n, t_ in sorted(self.externs.items())]
                return [f"/-- the loop `for {s.name} in ..` of `{self.node.name}` ({w}): structural recursion over what is left of the vector (`it_rest`); "
                        f"`.ret v s` = `return v` inside the body, `.next s` = the vector ran out; `s` = ({', '.join(state)}); `fuel` is passed on to the callees -/",
                        f"def {fname} {EVAL_BINDER} {' '.join(ps + ex)} : R (Flow {rty} ({sty})) :=",
                        "  match it_rest with", f"  | [] => .ok (.next {seq_tuple(state)})", f"  | {lname(s.name)} :: it_rest => ("] + ["    " + x for x in body] + ["    )"]
            self.aux.append(emit)
            self.effects += 1
            tv, v = self.fresh(), self.fresh()
            pat = seq_tuple(state)
            first = f"{fname}⟦EXT⟧ " + " ".join([lname(n) for n in fixed] + ["fuel", atom(t)] + [lname(n) for n in state])
            lines = [f"bnd ({first}) fun {tv} =>", f"match {tv} with", f"| .ret {v} {pat} => ("]
            lines += ["  " + x for x in self.emit_return(frame, v, frame.ret_ty, s)] + ["  )", f"| .next {pat} =>"]
            return lines + k("()", UNIT, en)
        return self.cg(s.it, env, frame, src)

    # -- `match`
    def const_name(self, path, want, w):
        if path not in SCHED_CONSTS:
            fail(w, f"constant `{path}` in a pattern is outside the translated subset")
        tk_, pname = SCHED_CONSTS[path]
        if T(tk_) != want:
            fail(w, f"pattern `{path}` against a value of type {seq_show(want)}")
        need = path.split("::")[0]
        if not any(n == need for _, n in self.uses):
            fail(w, f"`{need}` is not imported by the file")
        return self.ext(pname, seq_lty(T(tk_)))

    def pat_test(self, p, terms, tys, w):
        """the boolean test of a pattern made of enum constants, `_`, tuples and or-patterns"""
        if p[0] == "or":
            return "(" + " || ".join(self.pat_test(q, terms, tys, w) for q in p[1]) + ")"
        if p[0] == "tuple":
            if len(p[1]) != len(terms):
                fail(w, "a tuple pattern of the wrong width")
            return "(" + " && ".join(self.pat_test(q, [terms[i]], [tys[i]], w) for i, q in enumerate(p[1])) + ")"
        if len(terms) != 1:
            fail(w, "a pattern that is not a tuple against a tuple")
        if p[0] == "wild":
            return "true"
        if p[0] == "const":
            return f"decide ({atom(terms[0])} = {self.const_name(p[1], seq_unref(tys[0]), w)})"
        fail(w, "a `match` mixing enum constants with `Some` / `None` / binders is outside the translated subset")

    def matchpat(self, e, env, frame, k):
        w = self.w(e)
        scrut = e.scrut
        while scrut.kind == "paren":
            scrut = scrut.e
        comps = scrut.items if scrut.kind == "tuple" else [scrut]
        fr = SchedFrame("closed")
        box = []

        def arm_k(term, ty, en):
            box.append(ty)
            return [f".ok {atom(term)}"]

        def result_ty():
            rt = None
            for t in box:
                if rt is None or (rt[0] == "opt" and rt[1] is None):
                    rt = t if t is not None else rt
                elif t is not None and not seq_same(rt, t):
                    fail(w, f"the arms of the `match` have different types: {seq_show(rt)}, {seq_show(t)}")
            if rt is None:
                fail(w, "the type of the `match` is not determined")
            return rt

        def got(a, en):
            terms, tys = [t for t, _ in a], [seq_unref(ty) for _, ty in a]
            kinds = set()
            for p, _ in e.arms:
                eval_pat_kinds(p, kinds)
            if "const" in kinds:
                lines = []
                for n, (p, body) in enumerate(e.arms):
                    test = self.pat_test(p, terms, tys, w)
                    lines += [("if " if n == 0 else "else if ") + test + " then ("] + ["  " + x for x in self.block(body, en, fr, arm_k)] + ["  )"]
                lines += ['else .error (.panic "rs2lean: no arm of the match applies (rustc checks that the arms are exhaustive)")']
                return self.closed(lines, k, result_ty(), en)
            if "or" in kinds:
                fail(w, "or-patterns over `Some` / `None` / binders are outside the translated subset")
            lines = ["match " + ", ".join(terms) + " with"]
            for p, body in e.arms:
                ps = p[1] if p[0] == "tuple" else [p]
                if len(ps) != len(terms):
                    fail(w, "a pattern of the wrong width")
                env2, pats = dict(en), []
                self.nblk += 1
                for q, ty in zip(ps, tys):
                    if q[0] == "wild":
                        pats.append("_")
                    elif q[0] == "none":
                        if ty is None or ty[0] != "opt":
                            fail(w, f"`None` against {seq_show(ty)}")
                        pats.append("none")
                    elif q[0] in ("some", "bind"):
                        if q[1] in env2:
                            fail(w, f"the pattern variable `{q[1]}` shadows another variable")
                        if q[0] == "some" and (ty is None or ty[0] != "opt" or ty[1] is None):
                            fail(w, f"`Some(..)` against {seq_show(ty)}")
                        env2[q[1]] = SchedVar(ty[1] if q[0] == "some" else ty, False, -1)
                        pats.append(f"some {lname(q[1])}" if q[0] == "some" else lname(q[1]))
                    else:
                        fail(w, "this pattern is outside the translated subset")
                lines += ["| " + ", ".join(pats) + " => ("] + ["  " + x for x in self.block(body, env2, fr, arm_k)] + ["  )"]
            return self.closed(lines, k, result_ty(), en)
        return self.args(comps, env, frame, got)

    # -- calls
    def hole(self, name, ptys, rty, a, e, k, en):
        lt = " → ".join([seq_lty(seq_unref(t), False) for t in ptys] + [f"R {seq_lty(rty, False)}"])
        x = self.ext(name, lt)
        v = self.fresh()
        self.effects += 1
        return [f"bnd ({x} " + " ".join(atom(t) for t, _ in a) + f") fun {v} =>"] + k(v, rty, en)

    def call(self, e, env, frame, k):
        w, path = self.w(e), e.path
        p = "::".join(path)
        if p == "Schedule::default":
            if e.args or "Default" not in self.local_consts["Schedule derives"]:
                fail(w, "`Schedule::default()` needs `#[derive(Default)]` on `struct Schedule`")
            return k("({ inner := [] } : Schedule Time Kind Comments)", S_ST("Schedule"), env)
        if len(path) == 1 and path[0] in EVAL_FN_HOLES:
            mod, ptys, rty = EVAL_FN_HOLES[path[0]]
            if not self.imported(mod, path[0]):
                fail(w, f"`{path[0]}` is not imported from `{mod}`")

            def got(a, en):
                if len(a) != len(ptys) or not all(seq_same(ty, pt) for (_, ty), pt in zip(a, ptys)):
                    fail(w, f"the arguments of `{path[0]}` are not ({', '.join(seq_show(t) for t in ptys)})")
                return self.hole("ext_" + path[0], ptys, rty, a, e, k, en)
            return self.args(e.args, env, frame, got)
        if len(path) == 1 and (None, path[0]) in self.esigs:
            return self.call_eval(e, path[0], self.esigs[(None, path[0])], e.args, env, frame, k)
        return SchedGen.call(self, e, env, frame, k)

    def call_eval(self, e, lean_callee, sig, args, env, frame, k):
        w = self.w(e)

        def got(a, en):
            if len(a) != len(sig["params"]):
                fail(w, f"`{lean_callee}` takes {len(sig['params'])} argument(s)")
            for (t, tyx), wt in zip(a, sig["params"]):
                if not seq_same(tyx, wt):
                    fail(w, f"type mismatch in the call of `{lean_callee}`: {seq_show(wt)} vs {seq_show(tyx)}")
            for n, t in sig["externs"].items():
                self.ext(n, t)
            if sig["fuel"]:
                self.fuel = True
            callee = f"{lean_callee}{self.ext_args(sig['externs'])}" + "".join(" " + atom(t) for t, _ in a) + (" fuel" if sig["fuel"] else "")
            v = self.fresh()
            self.effects += 1
            return [f"bnd ({callee}) fun {v} =>"] + k(v, sig["ret"], en)
        return self.args(args, env, frame, got)

    def opt_adaptor(self, e, t, ty, en, frame, k):
        """`opt.filter(|x| c)` / `opt.map(|x| v)` / `opt.map(Type::method)` with a closure that may call things: a closed
        `match` (the closure runs on `Some` only; its parameter is in scope inside the arm only)"""
        w, name, elem = self.w(e), e.name, ty[1]
        if len(e.args) != 1:
            fail(w, f"`.{name}()` takes 1 argument")
        c = e.args[0]
        fr = SchedFrame("closed")
        box = []
        if c.kind == "closure":
            if len(c.params) != 1 or c.params[0][1]:
                fail(w, "a closure with one plain parameter is expected")
            pn = c.params[0][0]
            if re.fullmatch(r"tmp\d+|ext_\w+|fuel|self|it_rest", pn):
                fail(w, f"closure parameter `{pn}`")
            env2 = dict(en)
            env2[pn] = SchedVar(elem, False, -1)

            def fin(term, ty2, en3):
                box.append(seq_unref(ty2))
                if name == "filter":
                    if seq_unref(ty2) != BOOL:
                        fail(w, "the closure of `.filter()` does not return a bool")
                    return [f".ok (if {term} then some {lname(pn)} else none)"]
                return [f".ok (some {atom(term)})"]
            inner = self.block(c.body, env2, fr, fin)
            rt = elem if name == "filter" else box[0]
            pat = lname(pn)
        elif c.kind == "variant" and name == "map" and (c.enum, c.name) in self.sigs:
            sig = self.sigs[(c.enum, c.name)]
            if not sig["has_self"] or sig["mut_self"] or sig["params"] or not seq_same(elem, S_ST(c.enum)):
                fail(w, f"`{c.enum}::{c.name}` as a function needs a `&self` method without parameters of the element type")
            for n, t_ in sig["externs"].items():
                self.ext(n, t_)
            if sig["fuel"]:
                self.fuel = True
            pat = self.fresh()
            v2 = self.fresh()
            inner = [f"bnd ({c.enum}.{c.name}{self.ext_args(sig['externs'])} {pat}" + (" fuel" if sig["fuel"] else "") + f") fun {v2} =>", f".ok (some {v2})"]
            rt = sig["ret"]
        else:
            fail(w, f"the argument of `.{name}()` is outside the translated subset")
        if rt is None or rt[0] == "unit":
            fail(w, "the result type of the closure is not determined")
        lines = [f"match {t} with", "| none => .ok none", f"| some {pat} => ("] + ["  " + x for x in inner] + ["  )"]
        return self.closed(lines, k, T("opt", rt), en)

    def method(self, e, env, frame, k):
        w, name, recv = self.w(e), e.name, e.e
        while recv.kind == "paren":
            recv = recv.e
        if name == "date" and recv.kind == "var" and recv.name in ("DATE_START", "DATE_END") and recv.name not in env:
            if e.args or recv.name not in self.local_consts:
                fail(w, f"`{recv.name}.date()`: the constant is not defined in this file")
            return k(f"Chrono.{recv.name}", E_DATE, env)

        def on(t, ty, en):
            ty0 = seq_unref(ty)
            k0 = ty0[0] if ty0 else None
            if (k0, name) in EVAL_METHOD_HOLES:
                pname, imp, ptys, rty = EVAL_METHOD_HOLES[(k0, name)]
                if not self.imported(*imp):
                    fail(w, f"`{imp[1]}` is not imported from `{imp[0]}`")

                def got(a, en2):
                    if len(a) != len(ptys) or not all(seq_same(ty_, pt) for (_, ty_), pt in zip(a, ptys)):
                        fail(w, f"the arguments of `.{name}()` are not ({', '.join(seq_show(x) for x in ptys)})")
                    return self.hole(pname, [ty0] + ptys, rty, [(t, ty0)] + a, e, k, en2)
                return self.args(e.args, en, frame, got)
            if k0 == "adate" and name in ("pred_opt", "succ_opt") and not e.args:
                return k(f"Chrono.{name} {atom(t)}", T("opt", E_DATE), en)
            if k0 == "range" and ty0[1] == E_DATE and name == "contains" and len(e.args) == 1:
                return self.cg(e.args[0], en, frame, lambda a, ta, en2: k(f"Range.contains {atom(t)} {atom(a)}", BOOL, en2)
                               if seq_unref(ta) == E_DATE else fail(w, f"`.contains(..)` of a {seq_show(ta)}"))
            if k0 == "opt" and ty0[1] is not None:
                if name in ("filter", "map"):
                    return self.opt_adaptor(e, t, ty0, en, frame, k)
                if name == "as_ref" and not e.args:
                    return k(t, ty0, en)
                if name == "or" and len(e.args) == 1:
                    return self.cg(e.args[0], en, frame, lambda a, ta, en2: k(f"Option.or {atom(t)} {atom(a)}", ty0, en2)
                                   if seq_same(ta, ty0) else fail(w, f"`.or(..)`: {seq_show(ty0)} vs {seq_show(ta)}"))
                if name == "unwrap_or_else" and len(e.args) == 1:
                    c = e.args[0]
                    if c.kind == "variant" and (c.enum, c.name) == ("Schedule", "new") and seq_same(ty0[1], S_ST("Schedule")) and self.local_consts.get("Schedule::new"):
                        return k(f"Option.getD {atom(t)} ({{ inner := [] }} : Schedule Time Kind Comments)", ty0[1], en)
                    fail(w, "the argument of `.unwrap_or_else()` is outside the translated subset (only `Schedule::new`, = `Self::default()`)")
            return None
        marker = []

        def on_any(t, ty, en):
            r = on(t, ty, en)
            if r is None:
                marker.append(1)
                return []
            return r
        before = (self.n, self.effects, dict(self.externs), len(self.aux), self.fuel, self.nloop, self.nblk)
        r = self.cg(recv, env, frame, on_any)
        if marker:
            self.n, self.effects, self.externs, self.fuel, self.nloop, self.nblk = before[0], before[1], before[2], before[4], before[5], before[6]
            del self.aux[before[3]:]
            return SchedGen.method(self, e, env, frame, k)
        return r


def eval_struct(tk, rel, name, parser):
    """the named fields of `struct NAME [<..>] { .. }`"""
    texts = [x.text for x in tk]
    hits = [i for i in range(len(texts) - 2) if texts[i] == "struct" and texts[i + 1] == name]
    if len(hits) != 1:
        fail(rel, f"`struct {name}` not found")
    j = hits[0] + 2
    if texts[j] == "<":
        depth = 0
        while True:
            if texts[j] == "<":
                depth += 1
            elif texts[j] == ">":
                depth -= 1
                if depth == 0:
                    break
            j += 1
        j += 1
    if texts[j] != "{":
        fail(f"{rel}:{tk[j].line}", f"`struct {name} {{ .. }}` with named fields is expected")
    parser.i = j + 1
    fields = []
    while not parser.at("}"):
        if parser.at("pub"):
            parser.i += 1
            if parser.at("("):
                parser.i = matching(parser.t, parser.i) + 1
        fn = parser.ident()
        parser.eat(":")
        ft = parser.type_()
        if ft is None:
            fail(parser.where(), "field of type `_`")
        fields.append((fn, ft))
        if not parser.at("}"):
            parser.eat(",")
    return fields, tk[hits[0]].line


def eval_drop_cfg_test(raw):
    """the tokens without attributes; a statement under `#[cfg(test)]` inside a function body is dropped with its attribute
    (the harness and the library are not built with `cfg(test)`)"""
    out, i = [], 0
    pat = ["#", "[", "cfg", "(", "test", ")", "]"]
    while i < len(raw):
        if [x.text for x in raw[i : i + 7]] == pat and raw[i + 7].text == "crate":
            j = i + 7
            while raw[j].text != ";":
                if raw[j].text in ("{", "}") or raw[j].kind == "eof":
                    fail(f"{raw[i].line}", "`#[cfg(test)]` in front of something that is not a plain call statement")
                j += 1
            i = j + 1
            continue
        out.append(raw[i])
        i += 1
    return strip_attrs(out)


def eval_section(toks, raw):
    """the Lean text (lines) of the EVAL_TARGETS"""
    if not SCHED_EXPORT:
        fail(F_SCHED, "the schedule section has to be generated first")
    sigs, fields = SCHED_EXPORT["sigs"], dict(SCHED_EXPORT["fields"])
    toks(F_OH)
    tk = eval_drop_cfg_test(raw(F_OH))
    uses = file_uses(tk)
    for imp in sorted(EVAL_IMPORTS):
        if imp not in uses:
            fail(F_OH, f"`use {imp[0]}::{imp[1]};` not found: the name `{imp[1]}` is read as that item")
    for name, (_, rel, need) in EVAL_ENUMS.items():
        toks(rel)
        got = derives_of(raw(rel), name)
        if not need <= got:
            fail(rel, f"`{name}` is compared with `==` / matched by constants: it has to derive {sorted(need)}, found {sorted(got)}")
    texts = [x.text for x in tk]
    local_consts = {}
    for cn in ("DATE_START", "DATE_END"):
        if any(texts[i : i + 5] == ["pub", "const", cn, ":", "NaiveDateTime"] for i in range(len(texts) - 5)):
            local_consts[cn] = True
    toks(F_SCHED)
    local_consts["Schedule derives"] = derives_of(raw(F_SCHED), "Schedule")
    st = [x.text for x in toks(F_SCHED)]
    want = ["fn", "new", "(", ")", "->", "Self", "{", "Self", "::", "default", "(", ")", "}"]
    local_consts["Schedule::new"] = any(st[i : i + len(want)] == want for i in range(len(st))) and "Default" in local_consts["Schedule derives"]
    structs = set(SCHED_STRUCTS) | set(SCHED_ABSTRACT) | {"UniqueSortedVec"} | {n for _, n in EVAL_STRUCTS}
    L = ["/-! ### [eval extension] opening-hours/src/opening_hours.rs (the evaluator core) -/", "", "namespace Eval", "open Sched", ""]
    for rel, name in EVAL_STRUCTS:
        stk = toks(rel)
        p = EvalParser(stk, rel, structs, uses=std_uses(stk))
        fields[name], line = eval_struct(stk, rel, name, p)
        L += [f"/-- `struct {name}` ({rel}:{line}) -/", f"structure {name} ({EVAL_TPARAMS} : Type) where"]
        L += [f"  {lname(fn)} : {seq_lty(ft)}" for fn, ft in fields[name]] + [""]
    esigs = {}
    for rel, header, rname in EVAL_TARGETS:
        impl_ty = header[6] if header else None
        where = find_impl_fns(tk, rel, impl_ty, None, [rname], header=header)
        p = EvalParser(tk, rel, structs, uses=std_uses(tk))
        p.self_t = E_ST(impl_ty) if impl_ty else None
        p.item_t = None
        p.i = where[rname]
        node = p.seq_fn()
        g = EvalGen(rel, impl_ty, node, p.self_t, fields, sigs, uses, {}, esigs, local_consts)
        L += g.gen() + [""]
        esigs[(impl_ty, rname)] = dict(has_self=node.has_self, mut_self=node.mut_self, params=[pt for _, pt, _ in node.params], ret=node.ret,
                                       externs=dict(g.externs), fuel=g.fuel)
    EVAL_EXPORT.update(fields=fields, esigs=esigs, local_consts=local_consts)  # [eval2 extension] hook
    L += ["end Eval", ""]
    return L


# [eval2 extension] sixth increment: `OpeningHours::next_change_hint` of opening-hours/src/opening_hours.rs
# (notes/RS2LEAN6-eval2.md).  New constructs: `<` / `<=` / `>` / `>=` on dates; `a || b` / `a && b` whose right operand CALLS
# things (a closed `if`: the right operand runs only when Rust runs it); `let f = || { .. };` — a closure without parameters
# that is only CALLED (`f()`): the call is the body, evaluated as a closed sub-computation in the environment of the
# definition (every name it mentions must still denote the same variable at the call); `opt.is_some_and(|x| ..)` with a
# closure that calls things; `vec.iter().map(|x| { .. }).min().flatten()` for `Item = Option<NaiveDate>`: the `map` is an
# auxiliary structural recursion over the vector (the closure runs on the elements in order, `min` consumes them all, so
# the first panic is the outcome), `min` is `iterMinOptDate` of OH/Model/RustSeq.lean (std's `Iterator::min`: a `reduce`
# keeping the accumulator unless it is `Greater`; `None < Some(_)`), `flatten` is `Option.join`.  Untranslated callees are
# NAMED, EFFECTFUL parameters as before: `ext_expr_is_constant`, `ext_time_selector_is_immutable_full_day`,
# `ext_day_selector_next_change_hint` (and `ext_day_selector_filter` of the previous increment).
# (file, impl header, Rust name); the functions of rules/mod.rs come first: `next_change_hint` CALLS the translated
# `OpeningHoursExpression::is_constant` (linked); if they cannot be translated they stay a named parameter (`ext_expr_is_constant`)
EVAL2_TARGETS = [
    (F_RULES, ["impl", "RuleSequence"], "is_constant"),
    (F_RULES, ["impl", "OpeningHoursExpression"], "is_constant"),
    (F_OH, ["impl", "<", "L", ":", "Localize", ">", "OpeningHours", "<", "L", ">"], "next_change_hint"),
]
# (receiver kind or struct name, method) -> (parameter name, (module, trait) to be imported or None for an inherent method, parameter types, result)
EVAL2_METHOD_HOLES = {
    ("adaysel", "next_change_hint"): ("ext_day_selector_next_change_hint", ("crate::filter::date_filter", "DateFilter"), [E_DATE, E_CTX], T("opt", E_DATE)),
    ("atimesel", "is_immutable_full_day"): ("ext_time_selector_is_immutable_full_day", None, [], BOOL),
    ("OpeningHoursExpression", "is_constant"): ("ext_expr_is_constant", None, [], BOOL),
    ("adaysel", "is_empty"): ("ext_day_selector_is_empty", None, [], BOOL),
    ("atimesel", "is_00_24"): ("ext_time_selector_is_00_24", None, [], BOOL),
}
SCHED_EXT_DOC.update({
    "ext_day_selector_next_change_hint": "the untranslated `DaySelector::next_change_hint(&self, date, ctx)` (`DateFilter`), effectful",
    "ext_time_selector_is_immutable_full_day": "the untranslated `TimeSelector::is_immutable_full_day(&self)`",
    "ext_expr_is_constant": "the untranslated `OpeningHoursExpression::is_constant(&self)`",
    "ext_day_selector_is_empty": "the untranslated `DaySelector::is_empty(&self)` (rules/day.rs)",
    "ext_time_selector_is_00_24": "the untranslated `TimeSelector::is_00_24(&self)` (rules/time.rs)",
})
EVAL_EXPORT = {}  # filled by `eval_section`: the struct fields / signatures of the evaluator section
EVAL2_RESERVED = r"tmp\d+|ext_\w+|fuel|self|it_rest"


class Eval2Parser(EvalParser):
    """`EvalParser` plus `let Some(x) = e else { .. return v; };` (as in the dated2 front end: a `match` whose `Some` arm is
    the rest of the block)"""

    def seq_let(self):
        if self.peek(1).text == "Some" and self.peek(2).text == "(":
            line = self.eat("let").line
            name, by_ref, _ = self.some_pattern()
            if by_ref:
                fail(f"{self.f}:{line}", "`ref` in a `let .. else` pattern is outside the translated subset")
            self.eat("=")
            e = self.expr(nostruct=True)
            if not self.at("else"):
                fail(self.where(), "`let Some(..) = e;` without `else` is outside the translated subset")
            self.i += 1
            els = self.block()
            self.eat(";")
            if not els.stmts or els.stmts[-1].kind != "ret" or els.tail is not None:
                fail(f"{self.f}:{els.line}", "the `else` block of `let .. else` has to end with `return ..;`")
            return Node("letsomeelse", line, name=name, e=e, els=els)
        return EvalParser.seq_let(self)

    def block(self):
        b = EvalParser.block(self)
        for i, s_ in enumerate(b.stmts):
            if s_.kind == "letsomeelse":
                rest = Node("block", s_.line, stmts=b.stmts[i + 1:], tail=b.tail)
                rest = self.letelse_rewrite(rest)
                m = Node("matchopt", s_.line, scrut=s_.e, arms=[("none", None, s_.els), ("some", s_.name, rest)])
                return Node("block", b.line, stmts=b.stmts[:i], tail=m)
        return b

    def letelse_rewrite(self, b):
        for i, s_ in enumerate(b.stmts):
            if s_.kind == "letsomeelse":
                rest = self.letelse_rewrite(Node("block", s_.line, stmts=b.stmts[i + 1:], tail=b.tail))
                m = Node("matchopt", s_.line, scrut=s_.e, arms=[("none", None, s_.els), ("some", s_.name, rest)])
                return Node("block", b.line, stmts=b.stmts[:i], tail=m)
        return b


class Eval2Gen(EvalGen):
    def __init__(self, *a):
        EvalGen.__init__(self, *a)
        self.closures0 = {}
        self.nmap = 0

    def snapshot(self):
        return (self.n, self.effects, dict(self.externs), len(self.aux), self.fuel, self.nloop, self.nblk, self.nmap)

    def restore(self, b):
        self.n, self.effects, self.externs, self.fuel, self.nloop, self.nblk, self.nmap = b[0], b[1], b[2], b[4], b[5], b[6], b[7]
        del self.aux[b[3]:]

    def closed_value(self, body, env, w):
        """the lines of `body` (a block) as a closed sub-computation ending in `.ok v`, and the type of `v`"""
        box = []

        def fin(term, ty, en):
            box.append(seq_unref(ty))
            return [f".ok {atom(term)}"]
        lines = self.block(body, env, SchedFrame("closed"), fin)
        if not box or any(t is None or t[0] == "unit" for t in box):
            fail(w, "the type of the closure's value is not determined")
        if any(not seq_same(t, box[0]) for t in box):
            fail(w, f"the branches of the closure have different types: {', '.join(seq_show(t) for t in box)}")
        return lines, box[0]

    def cg(self, e, env, frame, k):
        if e.kind == "closure" and not e.params:
            # `let f = || { .. };`: nothing is evaluated here; `f()` is the body (see `call`)
            used = set()
            seq_idents(e.body, used)
            if self.has_self(e.body):
                used.add("self")
            for n in used:
                if n in env and env[n].mut:
                    fail(self.w(e), f"a closure capturing the `mut` variable `{n}` is outside the translated subset")
            cid = len(self.closures0)
            self.closures0[cid] = (e, dict(env), used)
            return k("⟦CLOSURE0⟧", T("closure0", cid), env)
        return EvalGen.cg(self, e, env, frame, k)

    def call(self, e, env, frame, k):
        path = e.path
        if len(path) == 1 and path[0] in env and env[path[0]].ty is not None and env[path[0]].ty[0] == "closure0":
            w = self.w(e)
            if e.args:
                fail(w, f"`{path[0]}` is a closure without parameters")
            c, denv, used = self.closures0[env[path[0]].ty[1]]
            for n in used:
                if n in denv and env.get(n) is not denv[n]:
                    fail(w, f"`{n}` does not denote the same variable here as where the closure `{path[0]}` is defined")
            lines, ty = self.closed_value(c.body, denv, w)
            return self.closed(lines, k, ty, env)
        return EvalGen.call(self, e, env, frame, k)

    def binop(self, e, env, frame, k):
        op, w = e.op, self.w(e)
        if op in ("&&", "||"):
            def lhs(a, ta, en):
                if seq_unref(ta) != BOOL:
                    fail(w, f"`{op}` on non-bool operands")
                snap = self.snapshot()
                lines, tb = self.closed_value(Node("block", e.r.line, stmts=[], tail=e.r), en, w)
                if tb != BOOL:
                    fail(w, f"`{op}` on non-bool operands")
                if self.effects == snap[1]:
                    self.restore(snap)
                    return None
                short = ".ok true" if op == "||" else ".ok false"
                head = f"if {a} then" if op == "||" else f"if !{atom(a)} then"
                return self.closed([f"{head} {short}", "else ("] + ["  " + x for x in lines] + ["  )"], k, BOOL, en)
            marker = []

            def lhs_any(a, ta, en):
                r = lhs(a, ta, en)
                if r is None:
                    marker.append(1)
                    return []
                return r
            snap0 = self.snapshot()
            r = self.cg(e.l, env, frame, lhs_any)
            if marker:
                self.restore(snap0)
                return EvalGen.binop(self, e, env, frame, k)
            return r
        if op in ("<", "<=", ">", ">=", "==", "!="):
            def lhs2(a, ta, en):
                if seq_unref(ta) != (E_DATE if op not in ("==", "!=") else E_OP):
                    return None
                want = seq_unref(ta)
                lop = {"<=": "≤", ">=": "≥", "==": "=", "!=": "≠"}.get(op, op)
                return self.cg(e.r, en, frame, lambda b, tb, en2: k(f"decide ({atom(a)} {lop} {atom(b)})", BOOL, en2)
                               if seq_unref(tb) == want else fail(w, f"`{op}` on {seq_show(ta)} and {seq_show(tb)}"))
            marker = []

            def lhs2_any(a, ta, en):
                r = lhs2(a, ta, en)
                if r is None:
                    marker.append(1)
                    return []
                return r
            snap0 = self.snapshot()
            r = self.cg(e.l, env, frame, lhs2_any)
            if marker:
                self.restore(snap0)
                return EvalGen.binop(self, e, env, frame, k)
            return r
        return EvalGen.binop(self, e, env, frame, k)

    def closure1(self, c, env, w):
        """the parameter name of a closure with one plain parameter"""
        if c.kind != "closure" or len(c.params) != 1:
            fail(w, "a closure with one parameter is expected")
        pn = c.params[0][0] if isinstance(c.params[0], (tuple, list)) else c.params[0]
        if isinstance(c.params[0], (tuple, list)) and c.params[0][1]:
            fail(w, "a closure with one plain parameter is expected")
        if re.fullmatch(EVAL2_RESERVED, pn) or pn in env:
            fail(w, f"closure parameter `{pn}` clashes with / shadows another name")
        return pn

    def iter_aux(self, what, c, src, env, frame, k):
        """`src.iter().map(c)` consumed entirely (`what` = "map": the list of the closure's values) or `src.iter().any(c)`
        (`what` = "any"): an auxiliary structural recursion over the vector"""
        w = self.w(c)
        pn = self.closure1(c, env, w)
        if frame.kind not in ("fn", "closed"):
            fail(w, "an iterator chain inside a loop is outside the translated subset")

        def on_src(t, ty, en):
            ty = seq_unref(ty)
            if ty is None or ty[0] != "list":
                fail(w, f"`.iter()` on {seq_show(ty)} is outside the translated subset (a `Vec<T>` / slice only)")
            elem = ty[1]
            used = set()
            seq_idents(c.body, used)
            if self.has_self(c.body):
                used.add("self")
            for n in used:
                if n in en and en[n].mut:
                    fail(w, f"a closure capturing the `mut` variable `{n}` is outside the translated subset")
            fixed = [n for n in en if n in used and en[n].ty is not None and en[n].ty[0] != "closure0"]
            self.nmap += 1
            fname = f"{self.lean_name}.{what}{self.nmap}"
            env_b = {n: en[n] for n in fixed}
            env_b[pn] = SchedVar(elem, False, -1)
            lines, vt = self.closed_value(c.body, env_b, w)
            if what in ("any", "find") and vt != BOOL:
                fail(w, f"the closure of `.{what}()` does not return a bool")
            ps = [f"({lname(n)} : {seq_lty(seq_unref(en[n].ty))})" for n in fixed]
            rt = "Bool" if what == "any" else f"(Option {seq_lty(elem, False)})" if what == "find" else f"(List {seq_lty(vt, False)})"

            def emit():
                ex = [f"({n} : {t_})" for n, t_ in sorted(self.externs.items())]
                fl = ["(fuel : Nat)"] if self.fuel else []
                again = f"{fname}⟦EXT⟧ " + " ".join([lname(n) for n in fixed] + (["fuel"] if self.fuel else []) + ["it_rest"])
                if what == "map":
                    doc = (f"/-- the adaptor `.map(|{pn}| ..)` of `{self.node.name}` ({w}), consumed entirely by `.min()`: the closure runs on the elements "
                           "of the vector in order (structural recursion over what is left, `it_rest`); a panic of the closure is the outcome -/")
                    step = ["      ) fun hd =>", f"    bnd ({again}) fun tl =>", "    .ok (hd :: tl)"]
                elif what == "find":
                    doc = (f"/-- `.iter().rev().find(|{pn}| ..)` of `{self.node.name}` ({w}) on the REVERSED vector: the closure runs on the elements in that order "
                           "until it returns `true`, that element is the result (structural recursion over what is left, `it_rest`) -/")
                    step = ["      ) fun hd =>", f"    if hd then .ok (some {lname(pn)}) else {again}"]
                else:
                    doc = (f"/-- `.iter().any(|{pn}| ..)` of `{self.node.name}` ({w}): the closure runs on the elements in order until it returns `true` "
                           "(structural recursion over what is left, `it_rest`); a panic of the closure is the outcome -/")
                    step = ["      ) fun hd =>", f"    if hd then .ok true else {again}"]
                return [doc, f"def {fname} {EVAL_BINDER} {' '.join(ps + fl + ['(it_rest : List ' + seq_lty(elem, False) + ')'] + ex)} : R {rt} :=",
                        "  match it_rest with", "  | [] => .ok " + {"map": "[]", "any": "false", "find": "none"}[what], f"  | {lname(pn)} :: it_rest =>", "    bnd ("] + [
                        "      " + x for x in lines] + step
            self.aux.append(emit)
            self.effects += 1
            v = self.fresh()
            first = f"{fname}⟦EXT⟧ " + " ".join([lname(n) for n in fixed] + ["⟦FUEL⟧", atom(t)])
            return [f"bnd ({first}) fun {v} =>"] + k(v, BOOL if what == "any" else T("opt", elem) if what == "find" else T("list", vt), en)
        return self.cg(src, env, frame, on_src)

    def gen(self):  # noqa: F811
        lines = EvalGen.gen(self)
        return [x.replace(" ⟦FUEL⟧", " fuel" if self.fuel else "") for x in lines if "⟦CLOSURE0⟧" not in x]

    def method(self, e, env, frame, k):
        w, name, recv = self.w(e), e.name, e.e
        while recv.kind == "paren":
            recv = recv.e
        if recv.kind == "var" and recv.name in ("DATE_START", "DATE_END") and recv.name not in env:
            return EvalGen.method(self, e, env, frame, k)

        def is_m(x, nm, nargs):
            return x.kind == "method" and x.name == nm and len(x.args) == nargs
        OD = T("opt", E_DATE)
        if name == "min" and not e.args and is_m(recv, "map", 1) and is_m(recv.e, "iter", 0):
            return self.iter_aux("map", recv.args[0], recv.e.e, env, frame, lambda v, ty, en: k(f"iterMinOptDate {v}", T("opt", OD), en)
                                 if ty == T("list", OD) else fail(w, f"`.min()` of an iterator of {seq_show(ty[1])} is outside the translated subset (`Option<NaiveDate>` only)"))
        if name == "min" and not e.args and is_m(recv, "iter", 0):
            return self.cg(recv.e, env, frame, lambda t, ty, en: k(f"iterMinOptDate {atom(t)}", T("opt", OD), en)
                           if seq_unref(ty) == T("list", OD) else fail(w, f"`.iter().min()` on {seq_show(ty)} is outside the translated subset (`[Option<NaiveDate>; n]` only)"))
        if name == "any" and len(e.args) == 1 and is_m(recv, "iter", 0):
            return self.iter_aux("any", e.args[0], recv.e, env, frame, k)
        if name == "find" and len(e.args) == 1 and is_m(recv, "rev", 0) and is_m(recv.e, "iter", 0):
            return self.iter_aux("find", e.args[0], Node("method", recv.line, e=recv.e.e, name="⟦reverse⟧", args=[]), env, frame, k)
        if name == "⟦reverse⟧":
            return self.cg(recv, env, frame, lambda t, ty, en: k(f"List.reverse {atom(t)}", seq_unref(ty), en)
                           if seq_unref(ty) is not None and seq_unref(ty)[0] == "list" else fail(w, f"`.iter().rev()` on {seq_show(ty)}"))

        def on(t, ty, en):
            ty0 = seq_unref(ty)
            k0 = ty0[0] if ty0 else None
            key = (ty0[1] if k0 == "est" else k0, name)
            if k0 == "est" and key in self.esigs and self.esigs[key]["has_self"] and not self.esigs[key]["mut_self"]:
                # a translated `&self` method of the evaluator structs: a CALL (linked)
                sig = self.esigs[key]
                if e.args or sig["params"]:
                    fail(w, f"`{key[0]}::{name}` with parameters is outside the translated subset")
                for n_, t_ in sig["externs"].items():
                    self.ext(n_, t_)
                if sig["fuel"]:
                    self.fuel = True
                if key == (self.impl_ty, self.node.name):
                    fail(w, "a recursive method is outside the translated subset")
                v = self.fresh()
                self.effects += 1
                return [f"bnd ({key[0]}.{name}{self.ext_args(sig['externs'])} {atom(t)}" + (" fuel" if sig["fuel"] else "") + f") fun {v} =>"] + k(v, sig["ret"], en)
            if key in EVAL2_METHOD_HOLES:
                pname, imp, ptys, rty = EVAL2_METHOD_HOLES[key]
                if imp is not None and not self.imported(*imp):
                    fail(w, f"`{imp[1]}` is not imported from `{imp[0]}`")

                def got(a, en2):
                    if len(a) != len(ptys) or not all(seq_same(ty_, pt) for (_, ty_), pt in zip(a, ptys)):
                        fail(w, f"the arguments of `.{name}()` are not ({', '.join(seq_show(x) for x in ptys)})")
                    return self.hole(pname, [ty0] + ptys, rty, [(t, ty0)] + a, e, k, en2)
                return self.args(e.args, en, frame, got)
            if k0 == "opt" and ty0[1] is not None and ty0[1][0] == "opt" and name == "flatten" and not e.args:
                return k(f"Option.join {atom(t)}", ty0[1], en)
            if k0 == "opt" and ty0[1] is not None and name == "unwrap_or_else" and len(e.args) == 1 and e.args[0].kind == "closure" and not e.args[0].params:
                snap = self.snapshot()
                lines, tv = self.closed_value(e.args[0].body, en, w)
                if self.effects != snap[1] or len(lines) != 1 or not lines[0].startswith(".ok "):
                    fail(w, "the closure of `.unwrap_or_else()` has to be a pure expression")
                if not seq_same(tv, ty0[1]):
                    fail(w, f"`.unwrap_or_else(..)`: {seq_show(ty0[1])} vs {seq_show(tv)}")
                return k(f"Option.getD {atom(t)} {lines[0][4:]}", ty0[1], en)
            if k0 == "opt" and ty0[1] is not None and name == "is_some_and":
                if len(e.args) != 1:
                    fail(w, "`.is_some_and(..)` needs a closure with one parameter")
                c = e.args[0]
                pn = self.closure1(c, en, w)
                env2 = dict(en)
                env2[pn] = SchedVar(ty0[1], False, -1)
                lines, tb = self.closed_value(c.body, env2, w)
                if tb != BOOL:
                    fail(w, "the closure of `.is_some_and()` does not return a bool")
                return self.closed([f"match {t} with", "| none => .ok false", f"| some {lname(pn)} => ("] + ["  " + x for x in lines] + ["  )"], k, BOOL, en)
            return self.on_more(e, t, ty0, en, frame, k)
        marker = []

        def on_any(t, ty, en):
            r2 = on(t, ty, en)
            if r2 is None:
                marker.append(1)
                return []
            return r2
        snap = self.snapshot()
        r = self.cg(recv, env, frame, on_any)
        if marker:
            self.restore(snap)
            return EvalGen.method(self, e, env, frame, k)
        return r

    def on_more(self, e, t, ty0, en, frame, k):
        return None


def eval2_section(toks, raw):
    """the Lean text (lines) of the EVAL2_TARGETS"""
    if not SCHED_EXPORT or not EVAL_EXPORT:
        fail(F_OH, "the schedule and evaluator sections have to be generated first")
    sigs, fields = SCHED_EXPORT["sigs"], EVAL_EXPORT["fields"]
    local_consts = EVAL_EXPORT["local_consts"]
    structs = set(SCHED_STRUCTS) | set(SCHED_ABSTRACT) | {"UniqueSortedVec", "RuleOperator"} | {n for _, n in EVAL_STRUCTS}
    L = ["/-! ### [eval2 extension] rules/mod.rs (`is_constant`), opening-hours/src/opening_hours.rs (`next_change_hint`) -/", "", "namespace Eval", "open Sched", ""]
    esigs = dict(EVAL_EXPORT["esigs"])
    for rel, header, rname in EVAL2_TARGETS:
        toks(rel)
        tk = eval_drop_cfg_test(raw(rel))
        impl_ty = header[6] if len(header) > 2 else header[1]

        def one():
            where = find_impl_fns(tk, rel, impl_ty, None, [rname], header=header)
            p = Eval2Parser(tk, rel, structs, uses=std_uses(tk))
            p.self_t = E_ST(impl_ty) if impl_ty else None
            p.item_t = None
            p.i = where[rname]
            node = p.seq_fn()
            uses = file_uses(tk) | ({("opening_hours_syntax::rules", n) for n in ("RuleKind", "RuleOperator")} if rel == F_RULES else set())
            g = Eval2Gen(rel, impl_ty, node, p.self_t, fields, sigs, uses, {}, esigs, local_consts)
            out = g.gen() + [""]
            esigs[(impl_ty, rname)] = dict(has_self=node.has_self, mut_self=node.mut_self, params=[pt for _, pt, _ in node.params], ret=node.ret,
                                           externs=dict(g.externs), fuel=g.fuel)
            return out
        if rel == F_RULES:
            # optional: without it `next_change_hint` keeps the named parameter `ext_expr_is_constant` (and its theorems say so by failing)
            L += guarded_section(f"eval2/{impl_ty}::{rname}", one)
        else:
            L += one()
    L += ["end Eval", ""]
    return L


# [eval2 extension], second part: `impl<T: DateFilter> DateFilter for [T]` and `impl DateFilter for ds::DaySelector` of
# opening-hours/src/filter/date_filter.rs, `DaySelector::is_empty` of opening-hours-syntax/src/rules/day.rs.  The slice impl
# is translated ONCE, generic in the element type `T` (the element's `filter` / `next_change_hint` is the named, effectful
# parameter `ext_elem_filter` / `ext_elem_next_change_hint`); `self.year.filter(date, ctx)` on a `Vec<YearRange>` field is a
# CALL of that definition with `ext_elem_filter := ext_year_range_filter` (one named parameter per element type), so
# `DaySelector::filter / next_change_hint` are linked to the translated slice functions.  `YearRange`, `MonthdayRange`,
# `WeekRange`, `WeekDayRange` are abstract (type parameters `Yr Md Wk Wd`); `struct DaySelector` is read from its declaration.
# New constructs: `.iter().any(|x| ..)` with a calling closure (short-circuit recursion), `[a, b, c, d]` (array literal:
# the elements are evaluated left to right), `.iter().min()` on it, `.unwrap_or_else(|| pure value)`, `fn f<L>(..) where L: Localize`.
F_DF, F_DAY = "opening-hours/src/filter/date_filter.rs", "opening-hours-syntax/src/rules/day.rs"
E2_ELEM = T("aelem")
E2_ABS = {"aelem": ("T", "T", "elem"), "ayr": ("Yr", "YearRange", "year_range"), "amd": ("Md", "MonthdayRange", "monthday_range"),
          "awk": ("Wk", "WeekRange", "week_range"), "awd": ("Wd", "WeekDayRange", "weekday_range")}
E2_DAYSEL = T("est2", "DaySelector")
E2_DAY_TPARAMS = "Yr Md Wk Wd"
E2_SLICE_BINDER, E2_DAY_BINDER = "{T Ctx : Type}", "{Yr Md Wk Wd Ctx : Type}"
E2_SLICE_HEADER = ["impl", "<", "T", ":", "DateFilter", ">", "DateFilter", "for", "[", "T", "]"]
E2_DAY_HEADER = ["impl", "DateFilter", "for", "ds", "::", "DaySelector"]
EVAL2_METHOD_HOLES.update({
    ("aelem", "filter"): ("ext_elem_filter", None, [E_DATE, E_CTX], BOOL),
    ("aelem", "next_change_hint"): ("ext_elem_next_change_hint", None, [E_DATE, E_CTX], T("opt", E_DATE)),
})
SCHED_EXT_DOC.update({
    "ext_elem_filter": "`T::filter(&self, date, ctx)` of the element type (`T: DateFilter`), effectful",
    "ext_elem_next_change_hint": "`T::next_change_hint(&self, date, ctx)` of the element type (`T: DateFilter`), effectful",
})
for _k, (_l, _r, _n) in list(E2_ABS.items())[1:]:
    SCHED_EXT_DOC[f"ext_{_n}_filter"] = f"the `DateFilter::filter` of `{_r}` (passed on to the translated slice impl), effectful"
    SCHED_EXT_DOC[f"ext_{_n}_next_change_hint"] = f"the `DateFilter::next_change_hint` of `{_r}` (passed on to the translated slice impl), effectful"

_seq_lty_before_eval2, _seq_show_before_eval2 = seq_lty, seq_show


def seq_lty(t, top=True):  # noqa: F811  [eval2 extension]
    if t[0] in E2_ABS:
        return E2_ABS[t[0]][0]
    if t[0] == "est2":
        s = f"{t[1]} {E2_DAY_TPARAMS}"
        return s if top else f"({s})"
    return _seq_lty_before_eval2(t, top)


def seq_show(t):  # noqa: F811  [eval2 extension]
    if t is not None and t[0] in E2_ABS:
        return E2_ABS[t[0]][1]
    if t is not None and t[0] == "est2":
        return t[1]
    return _seq_show_before_eval2(t)


class Eval2DayParser(EvalParser):
    def type_(self):
        tk = self.peek()
        if tk.text == "ds" and self.peek(1).text == "::":
            self.i += 2
            tk = self.peek()
        for kk, (_, rname, _) in E2_ABS.items():
            if kk != "aelem" and tk.text == rname:
                self.i += 1
                return T(kk)
        if tk.text == "DaySelector":
            self.i += 1
            return E2_DAYSEL
        return EvalParser.type_(self)

    def seq_fn(self):
        # `fn NAME<L>(..) -> T where L: Localize, {`: the parameter only occurs in `Context<L>`, which is abstract
        if [self.peek(k).text for k in range(2, 5)] == ["<", "L", ">"]:
            self.t = self.t[: self.i + 2] + self.t[self.i + 5 :]
            j = self.i
            while self.t[j].text not in ("{", "where") or self.t[j].kind == "eof":
                if self.t[j].kind == "eof":
                    fail(self.where(), "function without a body")
                j += 1
            if self.t[j].text == "where":
                got = [x.text for x in self.t[j : j + 5]]
                if got[:4] != ["where", "L", ":", "Localize"] or got[4] not in (",", "{"):
                    fail(f"{self.f}:{self.t[j].line}", "a `where` clause other than `where L: Localize` is outside the translated subset")
                self.t = self.t[:j] + self.t[j + (5 if got[4] == "," else 4) :]
        return EvalParser.seq_fn(self)

    def primary(self, nostruct):
        tk = self.peek()
        if tk.kind == "op" and tk.text == "[":
            self.i += 1
            items = []
            while not self.at("]"):
                items.append(self.expr())
                if self.at(";"):
                    fail(self.where(), "`[v; n]` is outside the translated subset")
                if not self.at("]"):
                    self.eat(",")
            self.eat("]")
            if not items:
                fail(self.where(tk), "an empty array literal is outside the translated subset")
            return Node("array", tk.line, items=items)
        return EvalParser.primary(self, nostruct)


class Eval2DayGen(Eval2Gen):
    def __init__(self, binder, dsigs, *a):
        Eval2Gen.__init__(self, *a)
        self.binder, self.dsigs = binder, dsigs

    def gen(self):
        return [x.replace(EVAL_BINDER, self.binder) for x in Eval2Gen.gen(self)]

    def field_ty(self, ty, name, node):
        t = seq_unref(ty)
        if t is not None and t[0] == "est2":
            for fn, ft in self.fields[t[1]]:
                if fn == name:
                    return ft
            fail(self.w(node), f"`{t[1]}` has no field `{name}`")
        return Eval2Gen.field_ty(self, ty, name, node)

    def cg(self, e, env, frame, k):
        if e.kind == "array":
            def got(a, en):
                tys = [seq_unref(ty) for _, ty in a]
                if any(ty is None or not seq_same(ty, tys[0]) for ty in tys):
                    fail(self.w(e), "the elements of the array literal have different / unknown types")
                return k("[" + ", ".join(t for t, _ in a) + "]", T("list", tys[0]), en)
            return self.args(e.items, env, frame, got)
        return Eval2Gen.cg(self, e, env, frame, k)

    def call_day(self, e, key, recv_t, extmap, args, en, frame, k):
        """a call of a translated function of this section; `extmap`: its named parameters -> the caller's"""
        w, sig = self.w(e), self.dsigs[key]

        def got(a, en2):
            if len(a) != len(sig["params"]) or not all(seq_same(ty_, pt) for (_, ty_), pt in zip(a, sig["params"])):
                fail(w, f"the arguments of `.{key[1]}()` are not ({', '.join(seq_show(x) for x in sig['params'])})")
            if sig["fuel"]:
                fail(w, "a callee with fuel")
            named = "".join(f" ({n} := {extmap[n]})" for n in sorted(sig["externs"]))
            v = self.fresh()
            self.effects += 1
            return [f"bnd ({key[0]}.{key[1]}{named} {atom(recv_t)}" + "".join(" " + atom(t_) for t_, _ in a) + f") fun {v} =>"] + k(v, sig["ret"], en2)
        return self.args(args, en, frame, got)

    def on_more(self, e, t, ty0, en, frame, k):
        name, k0 = e.name, ty0[0] if ty0 else None
        if k0 == "list" and ty0[1] is not None and ty0[1][0] in E2_ABS and ty0[1][0] != "aelem" and ("Slice", name) in self.dsigs:
            # a `DateFilter` method on a `Vec<X>` field: the translated slice impl at `T := X`
            sig = self.dsigs[("Slice", name)]
            lx, _, nx = E2_ABS[ty0[1][0]]
            extmap = {}
            for n, lt in sig["externs"].items():
                if not n.startswith("ext_elem_"):
                    fail(self.w(e), f"the slice impl has the parameter {n}")
                mine = f"ext_{nx}_{n[len('ext_elem_'):]}"
                extmap[n] = self.ext(mine, re.sub(r"\bT\b", lx, lt))
            return self.call_day(e, ("Slice", name), t, extmap, e.args, en, frame, k)
        if k0 == "est2" and (ty0[1], name) in self.dsigs:
            sig = self.dsigs[(ty0[1], name)]
            return self.call_day(e, (ty0[1], name), t, {n: self.ext(n, lt) for n, lt in sig["externs"].items()}, e.args, en, frame, k)
        return None


def eval2_day_section(toks, raw):
    toks(F_DF), toks(F_DAY)
    tk = strip_attrs(raw(F_DF))
    uses = file_uses(tk)
    for imp in [("chrono", "NaiveDate"), ("crate", "Context"), ("crate::localization", "Localize"), ("crate::opening_hours", "DATE_END")]:
        if imp not in uses:
            fail(F_DF, f"`use {imp[0]}::{imp[1]};` not found: the name `{imp[1]}` is read as that item")
    texts = [x.text for x in tk]
    want = ["use", "opening_hours_syntax", "::", "rules", "::", "day", "::", "{", "self", "as", "ds"]
    if not any(texts[i : i + len(want)] == want for i in range(len(texts))):
        fail(F_DF, "`use opening_hours_syntax::rules::day::{self as ds, ..}` not found: `ds::DaySelector` is read as the struct of rules/day.rs")
    local_consts = {"DATE_END": True, "Schedule derives": set(), "Schedule::new": False}
    dtk = strip_attrs(raw(F_DAY))
    structs = {"DaySelector"}
    fields = {}
    sp = Eval2DayParser(toks(F_DAY), F_DAY, structs, uses=std_uses(toks(F_DAY)))
    fields["DaySelector"], line = eval_struct(toks(F_DAY), F_DAY, "DaySelector", sp)
    L = ["/-! ### [eval2 extension] opening-hours/src/filter/date_filter.rs (`DateFilter for [T]`, `DateFilter for DaySelector`) -/", "",
         "namespace DayFilter", "", f"/-- `struct DaySelector` ({F_DAY}:{line}) -/", f"structure DaySelector ({E2_DAY_TPARAMS} : Type) where"]
    L += [f"  {lname(fn)} : {seq_lty(ft)}" for fn, ft in fields["DaySelector"]] + [""]
    dsigs = {}
    targets = [(F_DAY, dtk, ["impl", "DaySelector"], "DaySelector", E2_DAYSEL, "{Yr Md Wk Wd : Type}", "is_empty"),
               (F_DF, tk, E2_SLICE_HEADER, "Slice", T("list", E2_ELEM), E2_SLICE_BINDER, "filter"),
               (F_DF, tk, E2_SLICE_HEADER, "Slice", T("list", E2_ELEM), E2_SLICE_BINDER, "next_change_hint"),
               (F_DF, tk, E2_DAY_HEADER, "DaySelector", E2_DAYSEL, E2_DAY_BINDER, "filter"),
               (F_DF, tk, E2_DAY_HEADER, "DaySelector", E2_DAYSEL, E2_DAY_BINDER, "next_change_hint")]
    for rel, ftk, header, impl_ty, self_t, binder, rname in targets:
        where = find_impl_fns(ftk, rel, impl_ty, None, [rname], header=header)
        p = Eval2DayParser(ftk, rel, structs, uses=std_uses(ftk))
        p.self_t, p.item_t = self_t, None
        p.i = where[rname]
        node = p.seq_fn()
        g = Eval2DayGen(binder, dsigs, rel, impl_ty, node, self_t, fields, {}, file_uses(ftk), {}, {}, local_consts)
        L += g.gen() + [""]
        dsigs[(impl_ty, rname)] = dict(params=[pt for _, pt, _ in node.params], ret=node.ret, externs=dict(g.externs), fuel=g.fuel)
    L += ["end DayFilter", ""]
    return L



# [tz extension] fifth increment: opening-hours/src/localization/localize.rs (DESIGN §8.9, notes/RS2LEAN5-tz.md).
# `Localize for TzLocation<Tz>` (`naive`, `datetime`) and `Localize for NoLocation`.  The impl is GENERIC in `Tz: TimeZone`:
# `Tz` and `chrono::DateTime<Tz>` are type parameters `Tz` / `DT` of the generated definitions, the methods of chrono's
# `TimeZone` / `DateTime` traits it calls are NAMED function parameters (`ext_from_local_datetime`, `ext_with_timezone`,
# `ext_naive_local`), passed BY NAME in the theorems, which instantiate them with their meaning in the transition-table
# model (OH/Model/RustTzZone.lean).  `NaiveDateTime` is its nanosecond count (`Int`), `TimeDelta::seconds/minutes(LIT)`,
# `NaiveDateTime -= TimeDelta`, `checked_add_signed`, `LocalResult::earliest/latest` are the functions `TzChrono.*` /
# `LocalResult.*` of OH/Model/RustTz.lean.  New statement forms: `loop { .. }` (tail of the function, left by `return`
# only), `while c { .. }` with `break`, `if let Some([mut] x) = e { .. }`, `match e { Some(x) => stmt, None => stmt }`,
# `x -= e`; loops are definitions with `fuel` as in the schedule extension.  A separate, self-contained front end
# (`TzParser`, `TzGen`); anything else is an error naming file:line.

F_TZ = "opening-hours/src/localization/localize.rs"
TZ_IMPL_HEADER = ["impl", "<", "Tz", ">", "Localize", "for", "TzLocation", "<", "Tz", ">", "where", "Tz", ":", "TimeZone", "+", "Send", "+", "Sync", ",",
                  "Tz", "::", "Offset", ":", "Send", "+", "Sync", ","]
TZ_NOLOC_HEADER = ["impl", "Localize", "for", "NoLocation"]
# (impl header, Lean namespace, `type DateTime = ..;` tokens expected in the impl, Lean type of Self::DateTime, functions)
TZ_TARGETS = [
    (TZ_NOLOC_HEADER, "NoLocation", ["NaiveDateTime"], "ndt", ["naive", "datetime"]),
    (TZ_IMPL_HEADER, "TzLocation", ["chrono", "::", "DateTime", "<", "Tz", ">"], "dt", ["naive", "datetime", "event_time"]),
]
TZ_TRAIT_HEADER = ["pub", "trait", "Localize", ":", "Clone", "+", "Send", "+", "Sync"]
TZ_IMPORTS = {("chrono", "NaiveDateTime"), ("chrono", "TimeDelta"), ("chrono", "TimeZone")}
TZ_BINDER = "{Tz DT Coordinates : Type}"
TZ_EXT = {  # name -> (Lean type, doc)
    "ext_from_local_datetime": ("Tz → Int → LocalResult DT", "`TimeZone::from_local_datetime(&self, &NaiveDateTime) -> LocalResult<DateTime<Tz>>`"),
    "ext_with_timezone": ("DT → Tz → DT", "`DateTime::with_timezone(&self, &Tz) -> DateTime<Tz>`"),
    "ext_naive_local": ("DT → R Int", "`DateTime::naive_local(&self) -> NaiveDateTime` (may panic: `Local time out of range for `NaiveDateTime``)"),
    "ext_coords_event_time": ("Coordinates → Int → TimeEvent → R DTU", "`Coordinates::event_time(&self, NaiveDate, TimeEvent) -> DateTime<Utc>` (coordinates.rs, the `sunrise` crate: not translated)"),
    "ext_utc_with_timezone": ("DTU → Tz → DT", "`DateTime<Utc>::with_timezone(&self, &Tz) -> DateTime<Tz>`"),
}
TZ_LTY = {"ndt": "Int", "dt": "DT", "tz": "Tz", "delta": "Int", "bool": "Bool", "date": "Int", "tev": "TimeEvent", "ntime": "Int", "coords": "Coordinates", "dtu": "DTU"}
TZ_EVENTS = ["Dawn", "Sunrise", "Sunset", "Dusk"]


def tz_lty(t, top=True):
    if t[0] in ("opt", "lr"):
        s = f"{'Option' if t[0] == 'opt' else 'LocalResult'} {tz_lty(t[1], False)}"
        return s if top else f"({s})"
    if t[0] == "self":
        return t[1] if top or " " not in t[1] else f"({t[1]})"
    return TZ_LTY[t[0]]


class TzParser:
    """fn NAME(&self, [mut] x: TYPE, ..) -> TYPE block;  TYPE := NaiveDateTime | Self::DateTime
    block := { stmt* [expr] }
    stmt  := let [mut] x = expr ; | x = expr ; | x -= expr ; | return expr ; | break ; | loop block | while expr block
           | if let Some([mut] x) = expr block | match expr { Some(x) => arm , None => arm [,] }   (arm := block | simple stmt without `;`)
    expr  := cmp := post [(== != < <= > >=) post];  post := prim (.field | .method(args))*
    prim  := NAME | self | & post | ( expr ) | STR | INT | TimeDelta::NAME(args) | if expr block else block"""

    def __init__(self, tk, f, self_dt):
        self.t, self.f, self.i, self.self_dt = tk, f, 0, self_dt

    def peek(self, k=0):
        return self.t[min(self.i + k, len(self.t) - 1)]

    def at(self, text):
        p = self.peek()
        return p.text == text and p.kind in ("op", "id")

    def where(self, tk=None):
        return f"{self.f}:{(tk or self.peek()).line}"

    def eat(self, text):
        if not self.at(text):
            fail(self.where(), f"expected `{text}`, found `{self.peek().text}` (outside the translated subset, tz functions)")
        self.i += 1
        return self.t[self.i - 1]

    def ident(self):
        p = self.peek()
        if p.kind != "id" or p.text in ("let", "mut", "if", "else", "match", "loop", "while", "for", "return", "break", "continue", "fn", "move", "ref", "as", "unsafe"):
            fail(self.where(), f"expected a name, found `{p.text}` (outside the translated subset, tz functions)")
        self.i += 1
        return p.text

    def type_(self):
        tk = self.peek()
        if tk.text == "NaiveDateTime":
            self.i += 1
            return ("ndt",)
        if tk.text in ("NaiveDate", "TimeEvent", "NaiveTime"):
            self.i += 1
            return ({"NaiveDate": "date", "TimeEvent": "tev", "NaiveTime": "ntime"}[tk.text],)
        if tk.text == "Self" and self.peek(1).text == "::" and self.peek(2).text == "DateTime":
            self.i += 3
            return (self.self_dt,)
        if tk.text == "Option" and self.peek(1).text == "<":
            self.i += 2
            inner = self.type_()
            self.eat(">")
            return ("opt", inner)
        if tk.text == "L" and self.peek(1).text == "::" and self.peek(2).text == "DateTime" and self.self_dt == "ldt":
            self.i += 3
            return ("ldt",)
        if tk.text == "impl" and self.self_dt == "ldt":  # exactly the opaque iterator type of `iter_range`
            want = ["impl", "Iterator", "<", "Item", "=", "DateTimeRange", "<", "L", "::", "DateTime", ">", ">", "+", "Send", "+", "Sync", "+", "use", "<", "L", ">"]
            got = [self.peek(k).text for k in range(len(want))]
            if got[:10] + ([">>"] if got[10] == ">>" else got[10:12]) != want[:10] + ([">>"] if got[10] == ">>" else want[10:12]):
                fail(self.where(tk), "this `impl Trait` type is outside the translated subset (tz functions)")
            n = 11 if got[10] == ">>" else 12
            if [self.peek(n + k).text for k in range(9)] != want[12:]:
                fail(self.where(tk), "this `impl Trait` type is outside the translated subset (tz functions)")
            self.i += n + 9
            return ("iterret", ("dtr", ("ldt",)))
        fail(self.where(tk), f"type `{tk.text}` is outside the translated subset (tz functions)")

    def fn(self):
        line = self.eat("fn").line
        name = self.ident()
        if self.at("<"):
            fail(self.where(), "generic functions are outside the translated subset (tz functions)")
        self.eat("(")
        self.eat("&")
        self.eat("self")
        params = []
        while not self.at(")"):
            self.eat(",")
            if self.at(")"):
                break
            mut = False
            if self.at("mut"):
                self.i += 1
                mut = True
            pn = self.ident()
            self.eat(":")
            params.append((pn, self.type_(), mut))
        self.eat(")")
        self.eat("->")
        ret = self.type_()
        if self.at("where"):
            fail(self.where(), "`where` clauses are outside the translated subset")
        return Node("fn", line, name=name, params=params, ret=ret, body=self.block())

    def block(self):
        line = self.eat("{").line
        stmts, tail = [], None
        while not self.at("}"):
            if tail is not None:
                fail(self.where(), "statement after the tail expression")
            s = self.stmt(True)
            if s.kind == "tail":
                tail = s.e
            else:
                stmts.append(s)
        self.eat("}")
        return Node("block", line, stmts=stmts, tail=tail)

    def stmt(self, in_block):
        """`in_block`: followed by `;` where Rust wants one; otherwise a match arm (no `;`)"""
        tk = self.peek()

        def semi():
            if in_block:
                self.eat(";")

        if self.at("let"):
            if not in_block:
                fail(self.where(), "`let` as a match arm")
            self.i += 1
            mut = False
            if self.at("mut"):
                self.i += 1
                mut = True
            if self.at("Some") and not mut:
                self.i += 1
                self.eat("(")
                name = self.ident()
                self.eat(")")
                self.eat("=")
                e = self.expr()
                self.eat("else")
                els = self.block()
                self.eat(";")
                return Node("letelse", tk.line, name=name, e=e, els=els)
            name = self.ident()
            if not self.at("="):
                fail(self.where(), "this `let` (pattern, type annotation or `let .. else`) is outside the translated subset (tz functions)")
            self.i += 1
            e = self.expr()
            if self.at("else"):
                fail(self.where(), "`let .. else` is outside the translated subset (tz functions)")
            self.eat(";")
            return Node("let", tk.line, name=name, mut=mut, e=e)
        if self.at("return"):
            self.i += 1
            e = self.expr()
            if in_block and not self.at("}"):
                self.eat(";")
            elif in_block and self.at(";"):
                self.i += 1
            return Node("ret", tk.line, e=e)
        if self.at("break"):
            self.i += 1
            if not (self.at(";") or self.at("}") or self.at(",")):
                fail(self.where(), "`break` with a label or a value is outside the translated subset")
            if in_block and self.at(";"):
                self.i += 1
            return Node("break", tk.line)
        if self.at("continue") or self.at("for"):
            fail(self.where(), f"`{tk.text}` is outside the translated subset (tz functions)")
        if self.at("loop"):
            self.i += 1
            return Node("loop", tk.line, body=self.block())
        if self.at("while"):
            self.i += 1
            if self.at("let"):
                self.i += 1
                self.eat("Some")
                self.eat("(")
                name = self.ident()
                self.eat(")")
                self.eat("=")
                c = self.expr()
                return Node("whilelet", tk.line, name=name, c=c, body=self.block())
            c = self.expr()
            return Node("while", tk.line, c=c, body=self.block())
        if self.at("if") and self.peek(1).text == "let":
            self.i += 2
            self.eat("Some")
            self.eat("(")
            mut = False
            if self.at("mut"):
                self.i += 1
                mut = True
            name = self.ident()
            self.eat(")")
            self.eat("=")
            scrut = self.expr()
            body = self.block()
            if self.at("else"):
                fail(self.where(), "`if let .. else` is outside the translated subset (tz functions)")
            return Node("iflet", tk.line, name=name, mut=mut, scrut=scrut, body=body)
        if self.at("match") and self.match_is_option():
            self.i += 1
            scrut = self.expr()
            self.eat("{")
            arms = {}
            for _ in range(2):
                ptk = self.peek()
                if self.at("None"):
                    self.i += 1
                    key, name = "none", None
                else:
                    self.eat("Some")
                    self.eat("(")
                    name = self.ident()
                    self.eat(")")
                    key = "some"
                if key in arms:
                    fail(self.where(ptk), "two arms of the same shape")
                if self.at("if"):
                    fail(self.where(), "match guards are outside the translated subset (tz functions)")
                self.eat("=>")
                if self.at("{"):
                    body = self.block()
                    if body.tail is not None:
                        fail(self.where(ptk), "a match arm with a value is outside the translated subset (tz functions: `match` is a statement)")
                    if self.at(","):
                        self.i += 1
                else:
                    s = self.stmt(False)
                    if s.kind == "tail":
                        fail(self.where(ptk), "a match arm with a value is outside the translated subset (tz functions: `match` is a statement)")
                    body = Node("block", ptk.line, stmts=[s], tail=None)
                    if not self.at("}"):
                        self.eat(",")
                arms[key] = (name, body)
            self.eat("}")
            if in_block and self.at(";"):
                self.i += 1
            return Node("matchopt", tk.line, scrut=scrut, arms=arms)
        e = self.expr()
        t2 = self.peek()
        if t2.kind == "op" and t2.text in ("=", "-="):
            path, q = [], e
            while q.kind == "field":
                path.insert(0, q.name)
                q = q.e
            if q.kind != "var" or (path and t2.text != "="):
                fail(self.where(t2), "only a local variable (or, with `=`, a field path of one) can be assigned (tz functions)")
            self.i += 1
            rhs = self.expr()
            semi()
            return Node("assign", t2.line, name=q.name, path=path, e=rhs, op=t2.text)
        if t2.kind == "op" and t2.text in ("+=", "*=", "/=", "%=", "|=", "&=", "^=", "<<=", ">>="):
            fail(self.where(t2), f"`{t2.text}` is outside the translated subset (tz functions)")
        if in_block and self.at("}"):
            return Node("tail", tk.line, e=e)
        fail(self.where(t2), "an expression statement is outside the translated subset (tz functions)")

    def match_is_option(self):
        save = self.i
        self.i += 1
        self.expr()
        ok = self.at("{") and self.peek(1).text in ("Some", "None")
        self.i = save
        return ok

    def expr(self):
        a = self.and_()
        tk = self.peek()
        if tk.kind == "op" and tk.text == "..":
            self.i += 1
            return Node("range", tk.line, a=a, b=self.and_())
        return a

    def and_(self):
        a = self.cmp_()
        while self.peek().kind == "op" and self.peek().text == "&&":
            ln = self.eat("&&").line
            a = Node("and", ln, a=a, b=self.cmp_())
        return a

    def cmp_(self):
        a = self.post()
        tk = self.peek()
        if tk.kind == "op" and tk.text in ("==", "!=", "<", "<=", ">", ">="):
            self.i += 1
            b = self.post()
            t3 = self.peek()
            if t3.kind == "op" and t3.text in ("==", "!=", "<", "<=", ">", ">="):
                fail(self.where(t3), f"`{t3.text}` after a comparison is outside the translated subset (tz functions)")
            return Node("cmp", tk.line, op=tk.text, a=a, b=b)
        if tk.kind == "op" and tk.text in ("+", "-", "*", "/", "%", "||", "..=", "[", "|", "^", "<<", ">>", "!"):
            fail(self.where(tk), f"`{tk.text}` is outside the translated subset (tz functions)")
        if tk.kind == "id" and tk.text == "as":
            fail(self.where(tk), "`as` is outside the translated subset (tz functions)")
        return a

    def args(self):
        self.eat("(")
        out = []
        while not self.at(")"):
            out.append(self.expr())
            if not self.at(")"):
                self.eat(",")
        self.eat(")")
        return out

    def post(self):
        e = self.prim()
        while self.at(".") or self.at("?"):
            if self.at("?"):
                e = Node("try", self.eat("?").line, e=e)
                continue
            ln = self.eat(".").line
            name = self.ident()
            if self.at("::"):
                fail(self.where(), "turbofish is outside the translated subset")
            if self.at("("):
                e = Node("method", ln, e=e, name=name, args=self.args())
            else:
                e = Node("field", ln, e=e, name=name)
        return e

    def closure(self, tk):
        params = []
        if self.at("||"):
            self.i += 1
        else:
            self.eat("|")
            while not self.at("|"):
                params.append(self.ident())
                if not self.at("|"):
                    self.eat(",")
            self.eat("|")
        if self.at("{"):
            body = self.block()
        else:
            body = Node("block", self.peek().line, stmts=[], tail=self.expr())
        return Node("closure", tk.line, params=params, body=body)

    def prim(self):
        tk = self.peek()
        if tk.kind == "op" and tk.text == "&":
            self.i += 1
            if self.at("mut"):
                fail(self.where(), "`&mut` is outside the translated subset (tz functions)")
            return Node("ref", tk.line, e=self.post())
        if tk.kind == "op" and tk.text == "(":
            self.i += 1
            e = self.expr()
            self.eat(")")
            return e
        if tk.kind == "str":
            self.i += 1
            if not re.fullmatch(r'"[^"\\{}]*"', tk.text):
                fail(self.where(tk), "only plain string literals are translated")
            return Node("str", tk.line, s=tk.text[1:-1])
        if tk.kind == "num":
            self.i += 1
            if not re.fullmatch(r"\d[\d_]*", tk.text):
                fail(self.where(tk), "only plain integer literals are translated (tz functions)")
            return Node("int", tk.line, v=int(tk.text.replace("_", "")))
        if tk.kind == "id" and tk.text == "if":
            self.i += 1
            if self.at("let"):
                fail(self.where(), "`if let` as a value is outside the translated subset (tz functions)")
            c = self.expr()
            a = self.block()
            self.eat("else")
            if self.at("if"):
                fail(self.where(), "`else if` is outside the translated subset (tz functions)")
            b = self.block()
            for blk in (a, b):
                if blk.stmts or blk.tail is None:
                    fail(f"{self.f}:{blk.line}", "the branches of an `if` value have to be single expressions (tz functions)")
            return Node("ifv", tk.line, c=c, a=a.tail, b=b.tail)
        if tk.kind == "id" and tk.text == "match":
            self.i += 1
            scrut = self.expr()
            self.eat("{")
            arms = []
            while not self.at("}"):
                en = self.ident()
                self.eat("::")
                var = self.ident()
                if self.at("(") or self.at("{") or self.at("|") or self.at("if"):
                    fail(self.where(), "only `ENUM::VARIANT => expr` arms are translated (tz functions)")
                self.eat("=>")
                arms.append((en, var, self.expr()))
                if not self.at("}"):
                    self.eat(",")
            self.eat("}")
            return Node("matchenum", tk.line, scrut=scrut, arms=arms)
        if tk.kind == "id" and tk.text == "move":
            self.i += 1
            return self.closure(tk)
        if tk.kind == "op" and tk.text in ("|", "||"):
            return self.closure(tk)
        if tk.kind == "op" and tk.text == "{":
            return Node("blockv", tk.line, body=self.block())
        if tk.kind == "id" and tk.text == "Some" and self.peek(1).text == "(":
            self.i += 1
            a = self.args()
            if len(a) != 1:
                fail(self.where(tk), "`Some(..)` takes one argument")
            return Node("some", tk.line, e=a[0])
        if tk.kind == "id" and self.peek(1).text == "::":
            path = [tk.text]
            self.i += 1
            while self.at("::"):
                self.i += 1
                path.append(self.ident())
            return Node("pathcall", tk.line, ty="::".join(path[:-1]), name=path[-1], args=self.args())
        if tk.kind == "id" and tk.text == "self":
            self.i += 1
            return Node("self", tk.line)
        if tk.kind == "id":
            name = self.ident()
            if self.at("(") or self.at("!"):
                fail(self.where(tk), f"the call `{name}(..)` is outside the translated subset (tz functions)")
            return Node("var", tk.line, name=name)
        fail(self.where(tk), f"`{tk.text}` is outside the translated subset (tz functions)")


def tz_idents(x, out):
    """every variable name mentioned below `x`"""
    if isinstance(x, Node):
        if x.kind == "var":
            out.add(x.name)
        for v in x.__dict__.values():
            tz_idents(v, out)
    elif isinstance(x, (list, tuple)):
        for v in x:
            tz_idents(v, out)
    elif isinstance(x, dict):
        for v in x.values():
            tz_idents(v, out)


class TzGen:
    """typed CPS generator: `cg(e, k)` evaluates `e` in Rust's order and hands `k` (a Lean atom, its type); statements are
    generated with the continuation of their block; a block that ends in `return` / `break` has none"""

    def __init__(self, f, ns, node, self_lty, fields):
        self.f, self.ns, self.node, self.self_lty, self.fields = f, ns, node, self_lty, fields
        self.lean_name = f"{ns}.{node.name}"
        self.binder = None if ns == "TzLocation" else ""
        self.self_arg, self.self_param = "self ", f"(self : {self_lty}) "
        self.n = self.nloop = 0
        self.defs, self.externs, self.fuel = [], [], False
        self.sigs = {}

    def w(self, node):
        return f"{self.f}:{node.line}"

    def tmp(self):
        self.n += 1
        return f"tmp{self.n}"

    def ext(self, name):
        if name not in self.externs:
            self.externs.append(name)
        return name

    # ---- expressions
    def cg(self, e, env, k):
        kd = e.kind
        if kd == "var":
            if e.name == "NoLocation" and e.name not in env:
                return k("NoLocation.mk", ("self", "NoLocation"))
            if e.name not in env:
                fail(self.w(e), f"unknown variable `{e.name}` (tz functions)")
            return k(lname(e.name), env[e.name][0])
        if kd == "ref":
            return self.cg(e.e, env, k)
        if kd == "self":
            return k("self", ("self", self.self_lty))
        if kd == "var" and e.name == "NoLocation" and e.name not in env:
            return k("NoLocation.mk", ("self", "NoLocation"))
        if kd == "matchenum":
            def km(a, t):
                if t != ("tev",) or [(en, v) for en, v, _ in e.arms] != [("TimeEvent", v) for v in TZ_EVENTS]:
                    fail(self.w(e), "only `match EVENT { TimeEvent::Dawn => .., TimeEvent::Sunrise => .., TimeEvent::Sunset => .., TimeEvent::Dusk => .. }` is translated (tz functions)")
                out, ty = [f"match {a} with"], None
                for _, v, body in e.arms:
                    def kb(x, tx):
                        return k(x, tx)
                    out += [f"| .{v} => ("] + self.ind(self.cg(body, env, kb)) + ["  )"]
                return out
            return self.cg(e.scrut, env, km)
        if kd == "field":
            def kf(a, t):
                if t[0] != "self" or e.name not in self.fields:
                    fail(self.w(e), f"field `.{e.name}` is outside the translated subset (tz functions)")
                return k(f"{a}.{lname(e.name)}", self.fields[e.name])
            return self.cg(e.e, env, kf)
        if kd == "cmp":
            def ka(a, ta):
                def kb(b, tb):
                    if ta != tb or ta[0] != "ndt":
                        fail(self.w(e), f"`{e.op}` is translated between two `NaiveDateTime` only (tz functions)")
                    op = {"==": "=", "!=": "≠", "<": "<", "<=": "≤", ">": ">", ">=": "≥"}[e.op]
                    return k(f"(decide ({a} {op} {b}))", ("bool",))
                return self.cg(e.b, env, kb)
            return self.cg(e.a, env, ka)
        if kd == "ifv":
            def kc(c, tc):
                if tc[0] != "bool":
                    fail(self.w(e), "the condition is not a `bool`")
                pa, pb = self.pure(e.a, env), self.pure(e.b, env)
                if pa[1] != pb[1]:
                    fail(self.w(e), "the two branches of the `if` have different types")
                return k(f"(if {c} then {pa[0]} else {pb[0]})", pa[1])
            return self.cg(e.c, env, kc)
        if kd == "pathcall":
            if e.ty == "NaiveTime" and e.name == "from_hms_opt" and len(e.args) == 3 and all(x.kind == "int" and x.v < 2 ** 32 for x in e.args):
                return k(f"(TzChrono.from_hms_opt {e.args[0].v} {e.args[1].v} {e.args[2].v})", ("opt", ("ntime",)))
            if e.ty == "TimeDelta" and e.name in ("seconds", "minutes") and len(e.args) == 1 and e.args[0].kind == "int" and e.args[0].v < 10 ** 12:
                return k(f"(TzChrono.{e.name} {e.args[0].v})", ("delta",))
            fail(self.w(e), f"the call `{e.ty}::{e.name}(..)` is outside the translated subset (tz functions: `TimeDelta::seconds/minutes(LITERAL)`)")
        if kd == "method":
            def kr(r, tr):
                return self.cg_args(e.args, env, [], lambda av: self.method(e, r, tr, av, k))
            return self.cg(e.e, env, kr)
        fail(self.w(e), f"this expression ({kd}) is outside the translated subset (tz functions)")

    def cg_args(self, args, env, acc, k):
        if not args:
            return k(acc)
        if args[0].kind == "str":
            return self.cg_args(args[1:], env, acc + [(args[0].s, ("str",))], k)
        return self.cg(args[0], env, lambda a, t: self.cg_args(args[1:], env, acc + [(a, t)], k))

    def method(self, e, r, tr, av, k):
        name, tys = e.name, [t for _, t in av]
        if tr[0] == "tz" and name == "from_local_datetime" and tys == [("ndt",)]:
            return k(f"({self.ext('ext_from_local_datetime')} {r} {av[0][0]})", ("lr", ("dt",)))
        if tr[0] == "lr" and name in ("earliest", "latest") and not av:
            return k(f"(LocalResult.{name} {r})", ("opt", tr[1]))
        if tr[0] == "ndt" and name == "checked_add_signed" and tys == [("delta",)]:
            return k(f"(TzChrono.ndt_checked_add_signed {r} {av[0][0]})", ("opt", ("ndt",)))
        if tr[0] == "dt" and name == "with_timezone" and tys == [("tz",)]:
            return k(f"({self.ext('ext_with_timezone')} {r} {av[0][0]})", ("dt",))
        if tr[0] == "dt" and name == "naive_local" and not av:
            v = self.tmp()
            return [f"bnd ({self.ext('ext_naive_local')} {r}) fun {v} =>"] + k(v, ("ndt",))
        if tr[0] == "ndt" and name == "time" and not av:
            return k(f"(TzChrono.ndt_time {r})", ("ntime",))
        if tr[0] == "coords" and name == "event_time" and tys == [("date",), ("tev",)]:
            v = self.tmp()
            return [f"bnd ({self.ext('ext_coords_event_time')} {r} {av[0][0]} {av[1][0]}) fun {v} =>"] + k(v, ("dtu",))
        if tr[0] == "dtu" and name == "with_timezone" and tys == [("tz",)]:
            return k(f"({self.ext('ext_utc_with_timezone')} {r} {av[0][0]})", ("dt",))
        if tr[0] == "self" and (tr[1].split()[0], name) in self.sigs:
            sig = self.sigs[(tr[1].split()[0], name)]
            if tys != sig["params"]:
                fail(self.w(e), f"the call of `{name}`: argument types")
            for x in sig["externs"]:
                self.ext(x)
            if sig["fuel"]:
                fail(self.w(e), f"the call of `{name}`, which has loops, is outside the translated subset here (tz functions)")
            v = self.tmp()
            args = "".join(f" {x}" for x, _ in av) + "".join(f" ({x} := {x})" for x in sig["externs"])
            recv = "" if sig["no_self"] else f" {r}"
            return [f"bnd ({sig['lean']}{recv}{args}) fun {v} =>"] + k(v, sig["ret"])
        if tr[0] == "opt" and name == "expect" and tys == [("str",)]:
            v = self.tmp()
            return [f"match {r} with", f"| none => .error (.panic \"{av[0][0]}\")", f"| some {v} =>"] + k(v, tr[1])
        if tr[0] == "opt" and name == "unwrap" and not av:
            v = self.tmp()
            return [f"match {r} with", "| none => .error (.panic \"called `Option::unwrap()` on a `None` value\")", f"| some {v} =>"] + k(v, tr[1])
        fail(self.w(e), f"method `.{name}()` on {tz_lty(tr)} is outside the translated subset (tz functions)")

    def pure(self, e, env):
        """an expression without effects, as (atom, type)"""
        got = []

        def k(a, t):
            got.append((a, t))
            return []
        if self.cg(e, env, k) or len(got) != 1:
            fail(self.w(e), "an expression that can panic is outside the translated subset here (tz functions)")
        return got[0]

    # ---- statements
    def state(self, env):
        return [n for n, (_, m) in env.items() if m]

    def tuple_(self, names):
        names = [lname(n) for n in names]
        return names[0] if len(names) == 1 else "(" + ", ".join(names) + ")" if names else "()"

    def tuple_ty(self, env, names):
        tys = [tz_lty(env[n][0], False) for n in names]
        return tys[0] if len(tys) == 1 else "(" + " × ".join(tys) + ")" if tys else "Unit"

    def block(self, blk, env, frame, k):
        """lines of the block; `k(env)` = what follows it (None: the block must not fall through)"""
        env = dict(env)
        return self.stmts(blk, 0, env, frame, k)

    def ind(self, lines):
        return ["  " + x for x in lines]

    def stmts(self, blk, i, env, frame, k):
        if i == len(blk.stmts):
            if blk.tail is not None:
                if k is not None or frame["kind"] not in ("fn",):
                    fail(self.w(blk.tail), "a block with a value is translated only as the body of the function (tz functions)")
                return self.cg(blk.tail, env, lambda a, t: self.ret(blk.tail, a, t, frame, env))
            if k is None:
                fail(f"{self.f}:{blk.line}", "this block has to end in `return` / `break` / a value (tz functions)")
            return k(env)
        s = blk.stmts[i]
        last = i + 1 == len(blk.stmts) and blk.tail is None

        def rest(env2):
            return self.stmts(blk, i + 1, env2, frame, k)

        if s.kind in ("ret", "break", "loop") and not last:
            fail(self.w(blk.stmts[i + 1]), f"statement after `{s.kind if s.kind != 'ret' else 'return'}`")
        if s.kind == "let":
            def kl(a, t):
                if s.name in env:
                    fail(self.w(s), f"`let {s.name}` shadows a variable in scope: outside the translated subset (tz functions)")
                env2 = dict(env)
                env2[s.name] = (t, s.mut)
                return [f"let {lname(s.name)} := {a}"] + rest(env2)
            return self.cg(s.e, env, kl)
        if s.kind == "assign":
            if s.name not in env or not env[s.name][1]:
                fail(self.w(s), f"`{s.name}` is not a `mut` variable in scope")
            if s.path:
                return self.assign_path(s, env, rest)
            vt = env[s.name][0]

            def ka(a, t):
                if s.op == "=":
                    if t != vt:
                        fail(self.w(s), f"assignment of a {tz_lty(t)} to a variable of type {tz_lty(vt)}")
                    return [f"let {lname(s.name)} := {a}"] + rest(env)
                if vt[0] != "ndt" or t[0] != "delta":
                    fail(self.w(s), "`-=` is translated as `NaiveDateTime -= TimeDelta` only (tz functions)")
                v = self.tmp()
                return [f"bnd (TzChrono.ndt_sub {lname(s.name)} {a}) fun {v} =>", f"let {lname(s.name)} := {v}"] + rest(env)
            return self.cg(s.e, env, ka)
        if s.kind == "ret":
            return self.cg(s.e, env, lambda a, t: self.ret(s, a, t, frame, env))
        if s.kind == "letelse":
            def kle(a, t):
                if t[0] != "opt":
                    fail(self.w(s), "`let Some(..) = e else { .. }` on a value that is not an `Option`")
                if s.name in env:
                    fail(self.w(s), f"`let Some({s.name})` shadows a variable in scope (tz functions)")
                if not self.diverges(s.els):
                    fail(self.w(s), "the `else` block of `let .. else` has to end in `return`")
                env2 = dict(env)
                env2[s.name] = (t[1], False)
                return [f"match {a} with", "| none => ("] + self.ind(self.block(s.els, env, frame, None)) + ["  )", f"| some {lname(s.name)} =>"] + rest(env2)
            return self.cg(s.e, env, kle)
        if s.kind == "break":
            if frame["kind"] != "while":
                fail(self.w(s), "`break` outside a `while` loop is outside the translated subset (tz functions)")
            return [f".ok (.next {self.tuple_(frame['state'])})"]
        if s.kind == "iflet":
            def ks(a, t):
                if t[0] != "opt":
                    fail(self.w(s), "`if let Some(..)` on a value that is not an `Option`")
                if s.name in env:
                    fail(self.w(s), f"the pattern variable `{s.name}` shadows a variable in scope (tz functions)")
                env2 = dict(env)
                env2[s.name] = (t[1], s.mut)
                # the variables of the block die with it: the continuation sees the outer ones (whose writes rebind the same names)
                inner = self.block(s.body, env2, frame, (lambda e3: rest(env)) if not self.diverges(s.body) else None)
                if last and k is None and not self.diverges(s.body):
                    fail(self.w(s), "this block has to end in `return` / `break` (tz functions)")
                return [f"match {a} with", f"| some {lname(s.name)} => ("] + self.ind(inner) + ["  )", "| none => ("] + self.ind(rest(env)) + ["  )"]
            return self.cg(s.scrut, env, ks)
        if s.kind == "matchopt":
            def km(a, t):
                if t[0] != "opt":
                    fail(self.w(s), "`match .. { Some(..) => .., None => .. }` on a value that is not an `Option`")
                out = [f"match {a} with"]
                for key in ("some", "none"):
                    name, body = s.arms[key]
                    env2 = dict(env)
                    if key == "some":
                        if name in env:
                            fail(self.w(s), f"the pattern variable `{name}` shadows a variable in scope (tz functions)")
                        env2[name] = (t[1], False)
                    inner = self.block(body, env2, frame, (lambda e3: rest(env)) if not self.diverges(body) else None)
                    out += [f"| some {lname(name)} => (" if key == "some" else "| none => ("] + self.ind(inner) + ["  )"]
                return out
            return self.cg(s.scrut, env, km)
        if s.kind == "while":
            return self.loop_(s, env, frame, rest, True)
        if s.kind == "loop":
            if frame["kind"] != "fn" or k is not None:
                fail(self.w(s), "`loop` is translated only as the last statement of the function body (tz functions)")
            return self.loop_(s, env, frame, None, False)
        fail(self.w(s), f"statement `{s.kind}` is outside the translated subset (tz functions)")

    def diverges(self, blk):
        if blk.tail is not None or not blk.stmts:
            return False
        s = blk.stmts[-1]
        if s.kind in ("ret", "break", "loop"):
            return True
        if s.kind == "matchopt":
            return all(self.diverges(b) for _, b in s.arms.values())
        return False

    def has_break(self, blk):
        for s in blk.stmts:
            if s.kind == "break":
                return True
            if s.kind == "iflet" and self.has_break(s.body):
                return True
            if s.kind == "matchopt" and any(self.has_break(b) for _, b in s.arms.values()):
                return True
        return False

    def ret(self, node, a, t, frame, env):
        if t != self.node.ret:
            fail(self.w(node), f"the function returns a {tz_lty(t)} where its signature says {tz_lty(self.node.ret)}")
        if frame["kind"] in ("fn", "loop"):
            return [f".ok {a}"]
        return [f".ok (.ret {a} {self.tuple_(frame['state'])})"]

    def assign_path(self, s, env, rest):
        fail(self.w(s), "assignment to a field is outside the translated subset (tz functions)")

    def vparams(self, names, env):
        return " ".join(f"({lname(n)} : {tz_lty(env[n][0])})" for n in names)

    def vargs(self, names, env):
        return " ".join(lname(n) for n in names)

    def loop_(self, s, env, frame, rest, is_while, let_name=None):
        """`while c { .. }` / `while let Some(x) = e { .. }`: `<fn>.loopN .. : R (Flow ret state)`; `loop { .. }` (left by
        `return` only): `R ret`"""
        self.nloop += 1
        self.fuel = True
        name = f"{self.lean_name}.loop{self.nloop}"
        state = self.state(env)
        used = set()
        tz_idents(s, used)
        if let_name:
            state = [n for n in state if n in used]
        fixed = [n for n in env if n not in state and n in used]  # the immutable variables the loop reads
        if not is_while and self.has_break(s.body):
            fail(self.w(s), "`break` out of `loop` is outside the translated subset (tz functions)")
        fr = dict(frame, kind="while" if is_while else "loop", state=state)
        call = (f"{name} «EXT:{name}»fuel {self.self_arg}" + self.vargs(fixed + state, env)).rstrip()
        outer_ext, self.externs = self.externs, []

        def again(env2):
            return [call]

        ret_ty = frame.get("ret_ty", self.node.ret)
        rret = tz_lty(ret_ty, False)
        if is_while:
            def kc(c, tc):
                nxt = [f".ok (.next {self.tuple_(state)})"]
                if let_name:
                    if tc[0] != "opt":
                        fail(self.w(s), "`while let Some(..)` on a value that is not an `Option`")
                    if let_name in env:
                        fail(self.w(s), f"the pattern variable `{let_name}` shadows a variable in scope (tz functions)")
                    env2 = dict(env)
                    env2[let_name] = (tc[1], False)
                    body = self.block(s.body, env2, fr, again if not self.diverges(s.body) else None)
                    return [f"match {c} with", f"| some {lname(let_name)} => ("] + self.ind(body) + ["  )", "| none => ("] + self.ind(nxt) + ["  )"]
                if tc[0] != "bool":
                    fail(self.w(s), "the condition of `while` is not a `bool`")
                body = self.block(s.body, env, fr, again if not self.diverges(s.body) else None)
                return [f"if {c} then ("] + self.ind(body) + ["  )", "else ("] + self.ind(nxt) + ["  )"]
            body = self.cg(s.c, env, kc)
            rty = f"R (Flow {rret} {self.tuple_ty(env, state)})"
        else:
            body = self.block(s.body, env, fr, again if not self.diverges(s.body) else None)
            rty = f"R {rret}"
        params = ("(fuel : Nat) " + self.self_param + self.vparams(fixed + state, env)).rstrip()
        exts, self.externs = self.externs, outer_ext
        for x in exts:
            self.ext(x)
        self.defs.append((name, s.line, "while" if is_while else "loop", params, rty, ["match fuel with", "| 0 => .error (.panic loopFuelExhausted)", "| fuel + 1 =>"] + self.ind(body), exts))
        if not is_while:
            return [call]
        v, r = self.tmp(), self.tmp()
        out = [f"bnd ({call}) fun {v} =>", f"match {v} with", f"| .ret {r} {self.tuple_(state)} => ("]
        out += self.ind(self.ret(s, r, ret_ty, frame, env)) + ["  )", f"| .next {self.tuple_(state)} =>"]
        return out + rest(env)

    def tz_binder(self, sig):
        if self.binder is not None:
            return self.binder
        tps = [t for t in ("Tz", "DT", "DTU", "Coordinates") if re.search(rf"(?<![A-Za-z0-9_.]){t}(?![A-Za-z0-9_])", sig)]
        return ("{" + " ".join(tps) + " : Type} ") if tps else ""

    def ext_params(self, exts):
        return "".join(f" ({x} : {TZ_EXT[x][0]})" for x in exts)

    def finish(self, lines):
        for d in self.defs:
            lines = [x.replace(f"«EXT:{d[0]}»", "".join(f"({e} := {e}) " for e in d[6])) for x in lines]
        return lines

    def gen(self):
        f = self.node
        env = {}
        for pn, pt, mut in f.params:
            env[pn] = (pt, mut)
        body = self.block(f.body, env, {"kind": "fn", "state": []}, None)
        exts = list(self.externs)
        L = []
        for name, line, what, params, rty, lines, dexts in self.defs:
            doc = {"while": "`.ret v s` = `return v`, `.next s` = the condition failed / `break`", "loop": "it is left by `return` only"}[what]
            L.append(f"/-- the `{what}` loop of `{self.ns}::{f.name}` ({self.f}:{line}); `fuel` bounds its iterations; {doc} -/")
            L.append(f"def {name} {self.tz_binder(params + self.ext_params(dexts) + rty)}{params}{self.ext_params(dexts)} : {rty} :=")
            L += self.ind(self.finish(lines))
            L.append("")
        rs = {"ndt": "NaiveDateTime", "date": "NaiveDate", "tev": "TimeEvent", "ntime": "NaiveTime"}
        sig = ", ".join(["&self"] + [f"{'mut ' if m else ''}{pn}: {rs.get(pt[0], 'Self::DateTime')}" for pn, pt, m in f.params])
        doc = f"/-- `{self.ns}::{f.name}({sig}) -> {rs.get(f.ret[0], 'Self::DateTime')}` ({self.f}:{f.line})"
        doc += "".join(f"; {x} = {TZ_EXT[x][1]}" for x in exts)
        if self.fuel:
            doc += "; `fuel` bounds the iterations of each loop (running out is an error outcome)"
        L.append(doc + " -/")
        ps = self.self_param + " ".join(f"({lname(pn)} : {tz_lty(pt)})" for pn, pt, _ in f.params)
        L.append(f"def {self.lean_name} {self.tz_binder(ps + self.ext_params(exts))}{ps.rstrip()}{self.ext_params(exts)}{' (fuel : Nat)' if self.fuel else ''} : R {tz_lty(f.ret, False)} :=")
        L += self.ind(self.finish(body))
        return L


def tz_section(toks, raw):
    tk = toks(F_TZ)
    uses = file_uses(tk)
    for imp in sorted(TZ_IMPORTS):
        if imp not in uses:
            fail(F_TZ, f"`use {imp[0]}::{imp[1]};` not found: the name `{imp[1]}` is read as that item")
    texts = [x.text for x in tk]

    def find(seq, what):
        hits = [i for i in range(len(texts) - len(seq)) if texts[i : i + len(seq)] == seq]
        if len(hits) != 1:
            fail(F_TZ, f"{what} not found (or found twice)")
        return hits[0]

    o = find(["struct", "NoLocation", ";"], "`struct NoLocation;`")
    L = ["/-! ### [tz extension] opening-hours/src/localization/localize.rs -/", "", "namespace Localize", "",
         f"/-- `struct NoLocation;` ({F_TZ}:{tk[o].line}) -/", "structure NoLocation where", "  mk ::", ""]
    o = find(["struct", "TzLocation", "<", "Tz", ">", "where", "Tz", ":", "TimeZone", "+", "Send", "+", "Sync", ",", "{",
              "tz", ":", "Tz", ",", "coords", ":", "Option", "<", "Coordinates", ">", ",", "}"],
             "`struct TzLocation<Tz> where Tz: TimeZone + Send + Sync, { tz: Tz, coords: Option<Coordinates>, }`")
    L += [f"/-- `struct TzLocation<Tz: TimeZone>` ({F_TZ}:{tk[o].line}); `Tz` and `Coordinates` are type parameters -/",
          "structure TzLocation (Tz Coordinates : Type) where", "  tz : Tz", "  coords : Option Coordinates", ""]
    sigs = {}
    # the default method `Localize::event_time` (the trait's own body; `&self` is not used: no `self` parameter)
    for imp in [("chrono", "NaiveDate"), ("chrono", "NaiveTime"), ("opening_hours_syntax::rules::time", "TimeEvent")]:
        if imp not in uses:
            fail(F_TZ, f"`use {imp[0]}::{imp[1]};` not found: the name `{imp[1]}` is read as that item")
    where = find_impl_fns(tk, F_TZ, "Localize", None, ["event_time"], header=TZ_TRAIT_HEADER)
    p = TzParser(tk, F_TZ, "ndt")
    p.i = where["event_time"]
    node = p.fn()
    g = TzGen(F_TZ, "Localize", node, "Unit", {})
    g.self_arg, g.self_param = "", ""
    L += g.gen() + [""]
    sigs[("NoLocation", "event_time")] = dict(lean="Localize.event_time", params=[pt for _, pt, _ in node.params], ret=node.ret, externs=list(g.externs), fuel=g.fuel, no_self=True)
    h = [i for i in range(len(texts) - 4) if texts[i : i + 4] == TZ_NOLOC_HEADER]
    if len(h) != 1 or "event_time" in texts[h[0] : matching(tk, h[0] + 4)]:
        fail(F_TZ, "`impl Localize for NoLocation` is expected not to override `event_time` (`NoLocation.event_time(..)` is read as the trait's default method)")
    for header, ns, dt_toks, self_dt, names in TZ_TARGETS:
        where = find_impl_fns(tk, F_TZ, ns, "Localize", names, header=header)
        h = find(header + ["{"], f"`{' '.join(header)} {{`")
        want = ["type", "DateTime", "="] + dt_toks + [";"]
        if texts[h + len(header) + 1 : h + len(header) + 1 + len(want)] != want:
            fail(f"{F_TZ}:{tk[h].line}", f"`{' '.join(want)}` expected first in this impl (the meaning of `Self::DateTime`)")
        if ns == "TzLocation":
            self_lty, fields = "TzLocation Tz Coordinates", {"tz": ("tz",), "coords": ("opt", ("coords",))}
        else:
            self_lty, fields = "NoLocation", {}
        for rname in names:
            p = TzParser(tk, F_TZ, self_dt)
            p.i = where[rname]
            node = p.fn()
            g = TzGen(F_TZ, ns, node, self_lty, fields)
            g.sigs = sigs
            L += g.gen() + [""]
            sigs[(ns, rname)] = dict(lean=f"{ns}.{rname}", params=[pt for _, pt, _ in node.params], ret=node.ret, externs=list(g.externs), fuel=g.fuel, no_self=False)
    L += ["end Localize", ""]
    return L


# ---- [tz extension], second part: the localisation pipeline of `OpeningHours::iter_range` (opening_hours.rs)
F_OH = "opening-hours/src/opening_hours.rs"
F_RANGE = "opening-hours/src/utils/range.rs"
TZ_OH_HEADER = ["impl", "<", "L", ":", "Localize", ">", "OpeningHours", "<", "L", ">"]
TZ_PIPE_BINDER = "{L DT Kind Comments : Type} [DecidableEq Kind]"
TZ_DTR_N = "DateTimeRange Int Kind Comments"
TZ_EXT.update({
    "self_ctx_locale": ("L", "the field `self.ctx.locale` (read only)"),
    "DATE_END": ("Int", "the constant `DATE_END` of opening_hours.rs"),
    "ext_locale_naive": ("L → DT → R Int", "`Localize::naive(&self, L::DateTime) -> NaiveDateTime` of the generic `L: Localize`"),
    "ext_locale_datetime": ("L → Int → R DT", "`Localize::datetime(&self, NaiveDateTime) -> L::DateTime` of the generic `L: Localize`"),
    "ext_iter_range_naive": (f"Int → Int → R (List ({TZ_DTR_N}))", "`self.iter_range_naive(from, to)` (not translated here), as the list of the items it yields"),
})
TZ_LTY.update({"loc": "L", "ldt": "DT", "kind": "Kind", "comm": "Comments"})
_tz_lty_before_pipe = tz_lty


def tz_lty(t, top=True):  # noqa: F811
    k = t[0]
    if k in ("dtr", "range", "src", "filt", "fpeek", "iterret"):
        s = {"dtr": lambda: f"DateTimeRange {tz_lty(t[1], False)} Kind Comments", "range": lambda: f"Range {tz_lty(t[1], False)}",
             "src": lambda: f"List {tz_lty(t[1], False)}", "filt": lambda: f"List {tz_lty(t[1], False)}",
             "fpeek": lambda: f"FilterPeek {tz_lty(t[1], False)}", "iterret": lambda: f"List {tz_lty(t[1], False)}"}[k]()
        return s if top else f"({s})"
    return _tz_lty_before_pipe(t, top)


class TzPipeGen(TzGen):
    """`iter_range`: generic `L: Localize` (type parameters `L`, `DT`; `locale.naive` / `locale.datetime` named parameters), the
    lazy `Peekable<Filter<..>>` as `FilterPeek` (OH/Model/RustTz.lean) with the filter closure as a function to `R Bool`, the
    `from_fn` closure as `<fn>.next : captured state -> R (item × state)`, the function itself as the collected `fromFn`"""

    def __init__(self, f, ns, node, new_lit):
        TzGen.__init__(self, f, ns, node, "", {})
        self.binder = TZ_PIPE_BINDER + " "
        self.self_arg, self.self_param = "", ""
        self.new_lit = new_lit
        self.npred = 0
        self.first_line = None

    def vparams(self, names, env):
        out = []
        for n in names:
            out.append(f"({lname(n)} : {tz_lty(env[n][0])})")
            if env[n][0][0] == "fpeek":
                out.append(f"({env[n][0][2]} : {tz_lty(env[n][0][1], False)} → R Bool)")
        return " ".join(out)

    def vargs(self, names, env):
        out = []
        for n in names:
            out.append(lname(n))
            if env[n][0][0] == "fpeek":
                out.append(env[n][0][2])
        return " ".join(out)

    def fields_of(self, t):
        if t[0] == "dtr":
            return {"range": ("range", t[1]), "kind": ("kind",), "comments": ("comm",)}
        if t[0] == "range":
            return {"start": t[1], "end": t[1]}
        return {}

    def cg(self, e, env, k):
        kd = e.kind
        if kd == "var" and e.name == "DATE_END" and e.name not in env:
            return k(self.ext("DATE_END"), ("ndt",))
        if kd == "field":
            if e.e.kind == "field" and e.e.e.kind == "self" and (e.e.name, e.name) == ("ctx", "locale"):
                return k(self.ext("self_ctx_locale"), ("loc",))

            def kf(a, t):
                fs = self.fields_of(t)
                if e.name not in fs:
                    fail(self.w(e), f"field `.{e.name}` of {tz_lty(t)} is outside the translated subset (tz functions)")
                return k(f"{a}.{lname(e.name)}", fs[e.name])
            return self.cg(e.e, env, kf)
        if kd == "cmp":
            def ka(a, ta):
                def kb(b, tb):
                    if ta != tb or ta[0] not in ("ndt", "kind") or (ta[0] == "kind" and e.op not in ("==", "!=")):
                        fail(self.w(e), f"`{e.op}` between {tz_lty(ta)} and {tz_lty(tb)} is outside the translated subset (tz functions)")
                    op = {"==": "=", "!=": "≠", "<": "<", "<=": "≤", ">": ">", ">=": "≥"}[e.op]
                    return k(f"(decide ({a} {op} {b}))", ("bool",))
                return self.cg(e.b, env, kb)
            return self.cg(e.a, env, ka)
        if kd == "and":
            pa, pb = self.pure(e.a, env), self.pure(e.b, env)  # `&&` is lazy: both sides have to be free of effects
            if pa[1] != ("bool",) or pb[1] != ("bool",):
                fail(self.w(e), "`&&` between values that are not `bool`")
            return k(f"({pa[0]} && {pb[0]})", ("bool",))
        if kd == "range":
            def ka(a, ta):
                def kb(b, tb):
                    if ta != tb:
                        fail(self.w(e), "`a..b` between values of different types")
                    return k(f"(Range.mk {a} {b})", ("range", ta))
                return self.cg(e.b, env, kb)
            return self.cg(e.a, env, ka)
        if kd == "some":
            return self.cg(e.e, env, lambda a, t: k(f"(some {a})", ("opt", t)))
        if kd == "try":
            def kt(a, t):
                v = self.tmp()
                if t[0] == "opt" and self.frame["kind"] == "fn" and self.node.ret[0] == "opt":
                    return [f"match {a} with", "| none => .ok none", f"| some {v} =>"] + k(v, t[1])
                if t[0] != "opt" or self.frame["kind"] not in ("fromfn", "while") or self.frame.get("try_none") is None:
                    fail(self.w(e), "`?` is translated on an `Option`, inside the `from_fn` closure or a function returning an `Option` (tz functions)")
                return [f"match {a} with", f"| none => {self.frame['try_none'](self.frame)}", f"| some {v} =>"] + k(v, t[1])
            return self.cg(e.e, env, kt)
        if kd == "ifv" and any(x.kind == "var" and x.name == "None" and "None" not in env for x in (e.a, e.b)):
            def kc(c, tc):
                if tc[0] != "bool":
                    fail(self.w(e), "the condition is not a `bool`")
                other = e.b if e.a.kind == "var" and e.a.name == "None" else e.a
                po = self.pure(other, env)
                if po[1][0] != "opt":
                    fail(self.w(e), "`None` in one branch of an `if` whose other branch is not an `Option`")
                pa, pb = ("none", po[0]) if other is e.b else (po[0], "none")
                return k(f"(if {c} then {pa} else {pb})", po[1])
            return self.cg(e.c, env, kc)
        if kd == "method" and e.name == "next" and not e.args and e.e.kind == "method" and e.e.e.kind == "self" and e.e.name in self.sigs:
            return self.iter_call(e.e, env, True, k)
        if kd == "method" and e.e.kind == "self" and e.name in self.sigs:
            return self.iter_call(e, env, False, k)
        if kd == "blockv":
            blk = e.body
            if blk.tail is None:
                fail(self.w(e), "a block without a value as an expression (tz functions)")
            env2 = dict(env)

            def go(i, env3):
                if i == len(blk.stmts):
                    return self.cg(blk.tail, env3, k)
                s = blk.stmts[i]
                if s.kind != "let" or s.mut:
                    fail(self.w(s), "only immutable `let`s are translated inside a block expression (tz functions)")
                if s.e.kind == "method" and s.e.name == "clone" and s.e.e.kind == "var" and s.e.e.name == s.name and s.name in env3:
                    return go(i + 1, env3)  # `let x = x.clone();`: the same value under the same name
                if s.name in env3:
                    fail(self.w(s), f"`let {s.name}` shadows a variable in scope (tz functions)")

                def kl(a, t):
                    env4 = dict(env3)
                    env4[s.name] = (t, False)
                    return [f"let {lname(s.name)} := {a}"] + go(i + 1, env4)
                return self.cg(s.e, env3, kl)
            return go(0, env2)
        if kd == "pathcall":
            path = f"{e.ty}::{e.name}"
            if path in ("std::cmp::min", "std::cmp::max") and len(e.args) == 2:
                def ka(a, ta):
                    def kb(b, tb):
                        if ta != tb or ta[0] != "ndt":
                            fail(self.w(e), f"`{path}` is translated on two `NaiveDateTime` only (tz functions)")
                        return k(f"(cmp{e.name.capitalize()} {a} {b})", ta)
                    return self.cg(e.args[1], env, kb)
                return self.cg(e.args[0], env, ka)
            if path == "DateTimeRange::new_with_sorted_comments" and len(e.args) == 3:
                def kargs(av):
                    (r, tr), (kk, tk), (c, tc) = av
                    if tr[0] != "range" or tk != ("kind",) or tc != ("comm",):
                        fail(self.w(e), "`DateTimeRange::new_with_sorted_comments(range, kind, comments)`: argument types")
                    t = ("dtr", tr[1])
                    return k(f"({{ range := {r}, kind := {kk}, comments := {c} }} : {tz_lty(t)})", t)
                return self.cg_args(e.args, env, [], kargs)
        if kd == "method" and e.e.kind == "var" and e.e.name in env and env[e.e.name][0][0] == "fpeek":
            name, (vt, mut) = e.e.name, env[e.e.name]
            if not mut:
                fail(self.w(e), f"`{name}` is not `mut`")
            v = self.tmp()
            if e.name == "next" and not e.args:
                return [f"bnd (FilterPeek.next {vt[2]} {lname(name)}) fun {v} =>", f"let {lname(name)} := {v}.2"] + k(f"{v}.1", ("opt", vt[1]))
            if e.name == "next_if" and len(e.args) == 1 and e.args[0].kind == "closure" and len(e.args[0].params) == 1:
                cl = e.args[0]
                if cl.params[0] in env:
                    fail(self.w(cl), f"the closure parameter `{cl.params[0]}` shadows a variable in scope (tz functions)")
                env2 = dict(env)
                env2[cl.params[0]] = (vt[1], False)
                if cl.body.stmts or cl.body.tail is None:
                    fail(self.w(cl), "the closure of `next_if` has to be a single expression (tz functions)")
                c, tc = self.pure(cl.body.tail, env2)
                if tc != ("bool",):
                    fail(self.w(cl), "the closure of `next_if` has to return a `bool`")
                return [f"bnd (FilterPeek.next_if {vt[2]} (fun ({lname(cl.params[0])} : {tz_lty(vt[1])}) => {c}) {lname(name)}) fun {v} =>",
                        f"let {lname(name)} := {v}.2"] + k(f"{v}.1", ("opt", vt[1]))
            fail(self.w(e), f"method `.{e.name}()` on a `Peekable<Filter<..>>` is outside the translated subset (tz functions)")
        if kd == "method" and e.e.kind == "self" and e.name == "iter_range_naive" and len(e.args) == 2:
            def kargs(av):
                if [t for _, t in av] != [("ndt",), ("ndt",)]:
                    fail(self.w(e), "`self.iter_range_naive(from, to)`: argument types")
                v = self.tmp()
                return [f"bnd ({self.ext('ext_iter_range_naive')} {av[0][0]} {av[1][0]}) fun {v} =>"] + k(v, ("src", ("dtr", ("ndt",))))
            return self.cg_args(e.args, env, [], kargs)
        if kd == "method" and e.name == "filter" and len(e.args) == 1 and e.args[0].kind == "closure":
            cl = e.args[0]

            def kr(r, tr):
                if tr[0] != "src" or len(cl.params) != 1 or cl.body.stmts or cl.body.tail is None:
                    fail(self.w(e), "`.filter(|x| EXPR)` is translated on the iterator `self.iter_range_naive(..)` only (tz functions)")
                if cl.params[0] in env:
                    fail(self.w(cl), f"the closure parameter `{cl.params[0]}` shadows a variable in scope (tz functions)")
                env2 = dict(env)
                env2[cl.params[0]] = (tr[1], False)

                def kb(a, t):
                    if t != ("bool",):
                        fail(self.w(cl), "the closure of `filter` has to return a `bool`")
                    return [f".ok {a}"]
                saved, self.frame = self.frame, {"kind": "closure"}
                body = self.cg(cl.body.tail, env2, kb)
                self.frame = saved
                self.npred += 1
                pn = f"pred{self.npred}"
                return [f"let {pn} := fun ({lname(cl.params[0])} : {tz_lty(tr[1])}) => ("] + self.ind(body) + ["  )"] + k(r, ("filt", tr[1], pn))
            return self.cg(e.e, env, kr)
        return TzGen.cg(self, e, env, k)

    def iter_call(self, e, env, first, k):
        """`self.f(args)` of a translated function returning `impl Iterator`: collected (`List`), or with `.next()` right
        behind it the first item of the fresh iterator (`<f>.first`)"""
        sig = self.sigs[e.name]

        def kargs(av):
            if [t for _, t in av] != sig["params"]:
                fail(self.w(e), f"the call of `{e.name}`: argument types")
            for x in sig["externs"]:
                self.ext(x)
            v = self.tmp()
            args = "".join(f" {x}" for x, _ in av) + "".join(f" ({x} := {x})" for x in sig["externs"])
            self.fuel = True
            suffix = ".first" if first else "«FIRST»"
            return [f"bnd ({sig['lean']}{suffix}{args} fuel) fun {v} =>"] + k(v, ("opt", sig["item"]) if first else ("iterret", sig["item"]))
        return self.cg_args(e.args, env, [], kargs)

    def method(self, e, r, tr, av, k):
        name, tys = e.name, [t for _, t in av]
        if name == "clone" and not av and tr[0] in ("loc", "ldt", "ndt", "dtr", "kind", "comm"):
            return k(r, tr)
        if tr[0] == "filt" and name == "peekable" and not av:
            return k(f"(FilterPeek.mk {r} none)", ("fpeek", tr[1], tr[2]))
        if tr[0] == "loc" and name == "naive" and tys == [("ldt",)]:
            v = self.tmp()
            return [f"bnd ({self.ext('ext_locale_naive')} {r} {av[0][0]}) fun {v} =>"] + k(v, ("ndt",))
        if tr[0] == "loc" and name == "datetime" and tys == [("ndt",)]:
            v = self.tmp()
            return [f"bnd ({self.ext('ext_locale_datetime')} {r} {av[0][0]}) fun {v} =>"] + k(v, ("ldt",))
        fail(self.w(e), f"method `.{name}()` on {tz_lty(tr)} is outside the translated subset (tz functions)")

    def assign_path(self, s, env, rest):
        vt = env[s.name][0]
        t, types = vt, []
        for f in s.path:
            fs = self.fields_of(t)
            if f not in fs:
                fail(self.w(s), f"field `.{f}` of {tz_lty(t)} is outside the translated subset (tz functions)")
            types.append(t)
            t = fs[f]

        def ka(a, ta):
            if ta != t:
                fail(self.w(s), f"assignment of a {tz_lty(ta)} to a field of type {tz_lty(t)}")
            term, prefix = a, [lname(s.name)] + [lname(f) for f in s.path]
            for i in range(len(s.path) - 1, -1, -1):
                term = f"{{ {'.'.join(prefix[: i + 1])} with {lname(s.path[i])} := {term} }}"
            return [f"let {lname(s.name)} := {term}"] + rest(env)
        return self.cg(s.e, env, ka)

    def stmts(self, blk, i, env, frame, k):
        self.frame = frame
        if i < len(blk.stmts) and blk.stmts[i].kind == "whilelet":
            s = blk.stmts[i]
            return self.loop_(s, env, frame, lambda env2: self.stmts(blk, i + 1, env2, frame, k), True, let_name=s.name)
        if i == len(blk.stmts) and blk.tail is not None and frame["kind"] == "fromfn" and k is None:
            return self.cg(blk.tail, env, lambda a, t: self.ret(blk.tail, a, t, frame, env))
        if i == len(blk.stmts) and blk.tail is not None and frame["kind"] == "fn" and k is None and blk.tail.kind == "pathcall" \
                and f"{blk.tail.ty}::{blk.tail.name}" == "std::iter::from_fn":
            return self.from_fn(blk.tail, env)
        return TzGen.stmts(self, blk, i, env, frame, k)

    def ret(self, node, a, t, frame, env):
        if frame["kind"] == "fromfn" or (frame["kind"] == "while" and "ret_ty" in frame):
            if t != frame["ret_ty"]:
                fail(self.w(node), f"the closure returns a {tz_lty(t)} where a {tz_lty(frame['ret_ty'])} is expected")
            if frame["kind"] == "while":
                return [f".ok (.ret {a} {self.tuple_(frame['state'])})"]
            return [f".ok ({a}, {self.tuple_(frame['fn_state'])})"]
        return TzGen.ret(self, node, a, t, frame, env)

    def from_fn(self, e, env):
        if len(e.args) != 1 or e.args[0].kind != "closure" or e.args[0].params:
            fail(self.w(e), "`std::iter::from_fn(move || { .. })` expected (tz functions)")
        cl = e.args[0]
        if self.node.ret[0] != "iterret":
            fail(self.w(e), "`from_fn` in a function that does not return `impl Iterator`")
        item = self.node.ret[1]
        used = set()
        tz_idents(cl, used)
        state = [n for n in env if n in used and env[n][1]]
        fixed = [n for n in env if n in used and not env[n][1]]
        name = f"{self.lean_name}.next"
        outer_ext, self.externs = self.externs, []

        def try_none(fr):
            if fr["kind"] == "while":
                return f".ok (.ret none {self.tuple_(fr['state'])})"
            return f".ok (none, {self.tuple_(state)})"
        fr = {"kind": "fromfn", "state": state, "fn_state": state, "ret_ty": ("opt", item), "try_none": try_none}
        env2 = {n: env[n] for n in fixed + state}
        nloop0 = self.nloop
        body = self.block(cl.body, env2, fr, None)
        has_loops = self.nloop > nloop0
        exts, self.externs = self.externs, outer_ext
        for x in exts:
            self.ext(x)
        sty = self.tuple_ty(env, state)
        params = (("(fuel : Nat) " if has_loops else "") + self.vparams(fixed + state, env)).rstrip()
        self.defs.append((name, cl.line, "from_fn", params, f"R ({tz_lty(('opt', item), False)} × {sty})", body, exts))
        st = self.tuple_(state)
        call = f"{name} «EXT:{name}»{'fuel ' if has_loops else ''}" + self.vargs(fixed + state, env)
        self.fuel = True
        v = self.tmp()
        self.first_line = [f"bnd ({call}) fun {v} =>", f".ok {v}.1"]
        return [f"fromFn (fun {st} => {call}) fuel {st}"]

    def binder_for(self, sig):
        """only the type parameters that occur in the signature (an unused implicit one could not be inferred)"""
        tps = [t for t in ("L", "DT", "Kind", "Comments") if re.search(rf"(?<![A-Za-z0-9_.]){t}(?![A-Za-z0-9_])", sig)]
        return "{" + " ".join(tps) + " : Type} [DecidableEq Kind] "

    def gen(self):
        f = self.node
        env = {pn: (pt, mut) for pn, pt, mut in f.params}
        self.frame = {"kind": "fn", "state": []}
        body = self.block(f.body, env, self.frame, None)
        exts = list(self.externs)
        L = []
        for name, line, what, params, rty, lines, dexts in self.defs:
            doc = {"while": "the `while` loop of", "from_fn": "one call of the closure passed to `std::iter::from_fn` in"}[what]
            L.append(f"/-- {doc} `OpeningHours::{f.name}` ({self.f}:{line})" + "".join(f"; {x} = {TZ_EXT[x][1]}" for x in dexts)
                     + ("; the captured `mut` state is threaded: argument and second component of the result" if what == "from_fn" else "") + " -/")
            L.append(f"def {name} {self.binder_for(params + self.ext_params(dexts) + rty)}{params}{self.ext_params(dexts)} : {rty} :=")
            L += self.ind(self.finish(lines))
            L.append("")
        ps = " ".join(f"({lname(pn)} : {tz_lty(pt)})" for pn, pt, _ in f.params)
        sig = f"`OpeningHours::{f.name}(&self, " + ", ".join(f"{pn}: L::DateTime" for pn, _, _ in f.params) + ")"
        docx = "".join(f"; {x} = {TZ_EXT[x][1]}" for x in exts)
        fuelp = " (fuel : Nat)" if self.fuel else ""
        if f.ret[0] == "iterret":
            L.append(f"/-- {sig} -> impl Iterator<Item = DateTimeRange<L::DateTime>>` ({self.f}:{f.line}){docx}; the iterator is collected: "
                     "the `from_fn` closure is called until it returns `None`, at most `fuel` times -/")
            L.append(f"def {self.lean_name} {self.binder_for(ps + self.ext_params(exts))}{ps}{self.ext_params(exts)}{fuelp} : R {tz_lty(f.ret, False)} :=")
            L += self.ind([x.replace("«FIRST»", "") for x in self.finish(body)])
            L.append("")
            L.append(f"/-- `{f.name}(..).next()` on the fresh iterator: its first item (the same code up to the creation of the iterator, then ONE call of the closure) -/")
            L.append(f"def {self.lean_name}.first {self.binder_for(ps + self.ext_params(exts))}{ps}{self.ext_params(exts)}{fuelp} : R {tz_lty(('opt', f.ret[1]), False)} :=")
            fb = body[:-1] + self.first_line if self.first_line else [x.replace("«FIRST»", ".first") for x in body]
            L += self.ind(self.finish(fb))
        else:
            L.append(f"/-- {sig} -> Option<L::DateTime>` ({self.f}:{f.line}){docx} -/")
            L.append(f"def {self.lean_name} {self.binder_for(ps + self.ext_params(exts))}{ps}{self.ext_params(exts)}{fuelp} : R {tz_lty(f.ret, False)} :=")
            L += self.ind(self.finish(body))
        return L


def tz_pipe_section(toks):
    tk, tr = toks(F_OH), toks(F_RANGE)
    uses = file_uses(tk)
    for imp in [("chrono", "NaiveDateTime"), ("crate::localization", "Localize"), ("crate", "DateTimeRange")]:
        if imp not in uses:
            fail(F_OH, f"`use {imp[0]}::{imp[1]};` not found: the name `{imp[1]}` is read as that item")
    texts, rtexts = [x.text for x in tk], [x.text for x in tr]

    def find(tx, seq, rel, what):
        hits = [i for i in range(len(tx) - len(seq)) if tx[i : i + len(seq)] == seq]
        if len(hits) != 1:
            fail(rel, f"{what} not found (or found twice)")
        return hits[0]

    find(texts, ["pub", "const", "DATE_END", ":", "NaiveDateTime", "="], F_OH, "`pub const DATE_END: NaiveDateTime = ..`")
    o = find(rtexts, ["struct", "DateTimeRange", "<", "D", "=", "NaiveDateTime", ">", "{", "pub", "range", ":", "Range", "<", "D", ">", ",", "pub", "kind", ":",
                      "RuleKind", ",", "pub", "comments", ":", "UniqueSortedVec", "<", "Arc", "<", "str", ">>", ",", "}"], F_RANGE,
             "`pub struct DateTimeRange<D = NaiveDateTime> { pub range: Range<D>, pub kind: RuleKind, pub comments: UniqueSortedVec<Arc<str>>, }`")
    find(rtexts, ["fn", "new_with_sorted_comments", "(", "range", ":", "Range", "<", "D", ">", ",", "kind", ":", "RuleKind", ",", "comments", ":", "UniqueSortedVec",
                  "<", "Arc", "<", "str", ">>", ",", ")", "->", "Self", "{", "Self", "{", "range", ",", "kind", ",", "comments", "}", "}"], F_RANGE,
         "`fn new_with_sorted_comments(range, kind, comments) -> Self { Self { range, kind, comments } }`")
    if not {"PartialEq", "Eq"} <= derives_of(toks.raw("opening-hours-syntax/src/rules/mod.rs"), "RuleKind"):
        fail("opening-hours-syntax/src/rules/mod.rs", "`RuleKind` has to derive PartialEq, Eq (`==` is translated as equality)")
    L = ["/-! ### [tz extension] the localisation pipeline of opening-hours/src/opening_hours.rs -/", "", "namespace Localize", "",
         f"/-- `struct DateTimeRange<D>` ({F_RANGE}:{tr[o].line}); `RuleKind` and `UniqueSortedVec<Arc<str>>` are the type parameters `Kind`, `Comments` -/",
         "structure DateTimeRange (D Kind Comments : Type) where", "  range : Range D", "  kind : Kind", "  comments : Comments", ""]
    names = ["iter_range", "iter_from", "next_change"]
    where = find_impl_fns(tk, F_OH, "OpeningHours", None, names, header=TZ_OH_HEADER)
    sigs = {}
    for rname in names:
        p = TzParser(tk, F_OH, "ldt")
        p.i = where[rname]
        node = p.fn()
        g = TzPipeGen(F_OH, "OpeningHours", node, None)
        g.sigs = sigs
        L += g.gen() + [""]
        if node.ret[0] == "iterret":
            sigs[rname] = dict(lean=f"OpeningHours.{rname}", params=[pt for _, pt, _ in node.params], item=node.ret[1], externs=list(g.externs))
    L += ["end Localize", ""]
    return L



# ------------------------------------------------------------------------------------------------
# [dated3 extension] sixth increment: `single_interval_from_bounds` and the `Date { .. }` arms of
# `MonthdayRange::next_change_hint` / `MonthdayRange::filter` (opening-hours/src/filter/date_filter.rs; DESIGN §8.9,
# notes/RS2LEAN6-dated3.md).  A small front end of its own: the base `Parser` (chrono mode) with three more forms
# (`if let Some(x) = e { .. }` without `else`, `if let (Date::Fixed { .. }, true) = (a, b) { .. }`, `match e { Some(x) =>
# a, None => b }`) and a continuation-passing generator `D3Gen` over a closed table of types and callees.  The callees
# translated elsewhere are CALLED (`DateFilter.date_year`, `DateFilter.date_on_year`, `DateFilter.year_before_offset`,
# `DateOffset.apply`, `Dated2.*`); `valid_ymd_after` / `valid_ymd_before` are passed as function VALUES; `single_day_intervals`
# is translated here (the list of its items); `ensure_increasing_iter` / `intervals_from_bounds` are translated by the second
# part of the region (`D3StepGen`: the closure of `std::iter::from_fn` as a step function) — the named parameter
# `ext_intervals_from_bounds` of the dated2 region is still passed on by the arms, OH/Props/ArithC02Dated3Bounds.lean proves
# that the translated function is the hand model the ties instantiate it with.  Everything else is an error naming file:line.
D3_IMPORTS = {("chrono", "NaiveDate"), ("crate::opening_hours", "DATE_END"), ("std::ops", "RangeInclusive")}
D3_DATE, D3_I32 = "date", "i32"
D3_LTY = {"date": "Int", "i32": "Int", "u16": "Int", "u8": "Int", "bool": "Bool", "Date": "Date", "DateOffset": "DateOffset", "Month": "Month"}
D3_SHOW = {"date": "NaiveDate", "Date": "ds::Date", "DateOffset": "ds::DateOffset"}
# translated free functions of date_filter.rs: name -> (parameter types, result type, Lean name, named parameters passed on)
D3_CALLEES = {
    "date_year": (["Date"], ("opt", "i32"), "DateFilter.date_year", []),
    "year_before_offset": (["date", "DateOffset"], "i32", "DateFilter.year_before_offset", []),
    "is_open_from_intervals": (["date", ("list", ("rng", "date"))], "bool", "Dated2.is_open_from_intervals", []),
    "next_change_from_intervals": (["date", ("list", ("rng", "date"))], "date", "Dated2.next_change_from_intervals", []),
    "is_open_from_bounds": (["date", ("list", "date"), ("list", "date")], "bool", "Dated2.is_open_from_bounds", ["ext_intervals_from_bounds"]),
    "next_change_from_bounds": (["date", ("list", "date"), ("list", "date")], "date", "Dated2.next_change_from_bounds", ["ext_intervals_from_bounds"]),
}
D3_BUILDERS = {"valid_ymd_after": "DateFilter.valid_ymd_after", "valid_ymd_before": "DateFilter.valid_ymd_before"}
# the signatures (parameter names removed) the tables above assume for the functions translated by the other sections: checked
# against the source on every run (a changed signature is an error here, never a silently stale table)
D3_SIGS = {
    "date_year": "fn date_year ( ds :: Date ) -> Option < i32 >",
    "year_before_offset": "fn year_before_offset ( NaiveDate , ds :: DateOffset ) -> i32",
    "date_on_year": "fn date_on_year ( ds :: Date , i32 , impl FnOnce ( i32 , u32 , u32 ) -> Option < NaiveDate > , ) -> Option < NaiveDate >",
    "valid_ymd_after": "fn valid_ymd_after ( i32 , u32 , u32 ) -> Option < NaiveDate >",
    "valid_ymd_before": "fn valid_ymd_before ( i32 , u32 , u32 ) -> Option < NaiveDate >",
    "is_open_from_intervals": "fn is_open_from_intervals ( NaiveDate , impl Iterator < Item = RangeInclusive < NaiveDate >> , ) -> bool",
    "next_change_from_intervals": "fn next_change_from_intervals ( NaiveDate , impl Iterator < Item = RangeInclusive < NaiveDate >> , ) -> NaiveDate",
    "is_open_from_bounds": "fn is_open_from_bounds ( NaiveDate , impl IntoIterator < Item = NaiveDate > , impl IntoIterator < Item = NaiveDate > , ) -> bool",
    "next_change_from_bounds": "fn next_change_from_bounds ( NaiveDate , impl IntoIterator < Item = NaiveDate > , impl IntoIterator < Item = NaiveDate > , ) -> NaiveDate",
}
D3_SIG_APPLY = "fn apply ( & self , NaiveDate ) -> NaiveDate"


def d3_sig_text(tk, at):
    j = at
    while tk[j].text != "{":
        if tk[j].kind == "eof":
            fail("(dated3)", "no body")
        j += 1
    return re.sub(r"(?:mut )?\w+ : ", "", " ".join(x.text for x in tk[at:j]))
# untranslated functions of date_filter.rs: name -> (parameter types, result type, Lean type of the named parameter)
D3_FN_HOLES = {}
D3_EXT_TY = {"ext_intervals_from_bounds": "List Int → List Int → List (RangeInclusive Int)"}
D3_ARMS = [("next_change_hint", ("opt", "date"), "hint_date"), ("filter", "bool", "filter_date")]


def d3_lty(t, top=True):
    if isinstance(t, tuple):
        s_ = {"opt": "Option", "rng": "RangeInclusive", "list": "List"}[t[0]] + " " + d3_lty(t[1], False)
        return s_ if top else f"({s_})"
    return D3_LTY[t]


def d3_show(t):
    if isinstance(t, tuple):
        return {"opt": "Option<%s>", "rng": "RangeInclusive<%s>", "list": "impl IntoIterator<Item = %s>"}[t[0]] % d3_show(t[1])
    return D3_SHOW.get(t, t)


class D3Parser(Parser):
    def primary(self, nostruct):
        if self.at("move") and self.peek(1).text == "|":
            # `move |x| e`: the closure owns copies of what it captures; here every captured value is `Copy` and never written
            # (checked by the generator: the captured variables have the types of D3_LTY, none is `mut`), so it is `|x| e`
            self.i += 1
        if self.at("move") and self.peek(1).text == "||":
            self.i += 1  # `move || { .. }`: only as the argument of `std::iter::from_fn` (checked by `d3_step_fn`)
            n = Parser.primary(self, nostruct)
            n.move = True
            return n
        if self.at("while"):
            # `while c {}` with an EMPTY body (the condition does the work: `next_if`); as a statement-level `if` node so that
            # `Parser.block` accepts it without `;`
            line = self.eat("while").line
            c = self.expr(nostruct=True)
            self.eat("{")
            if not self.at("}"):
                fail(self.where(), "a `while` loop with a body is outside the translated subset (dated3 functions)")
            self.eat("}")
            return Node("if", line, c=Node("d3whilecond", line, c=c), a=None, b=None)
        return Parser.primary(self, nostruct)

    def iflet_(self, nostruct):
        """`if let Some(x) = e { a } [else { b }]`; `if let (Date::Fixed { f, g: name, .. }, true) = (a, b) { .. }` (no `else`)"""
        line = self.eat("if").line
        self.eat("let")
        if self.at("("):
            self.i += 1
            ptk = self.peek()
            path = [self.ident()]
            while self.at("::"):
                self.i += 1
                path.append(self.ident())
            if len(path) > 1 and path[0] in self.aliases:
                path = path[1:]
            if path != ["Date", "Fixed"] or not self.at("{"):
                fail(self.where(ptk), "only `if let (Date::Fixed { .. }, true) = (a, b)` is translated (dated3 functions)")
            self.eat("{")
            fields = {}
            while not self.at("}"):
                ftk = self.peek()
                fn = self.ident()
                bn = fn
                if self.at(":"):
                    self.i += 1
                    bn = self.ident()
                if fn in fields or not re.fullmatch(r"[a-z_][a-z0-9_]*", bn) or re.fullmatch(r"tmp\d+|ext_\w+", bn):
                    fail(self.where(ftk), f"field pattern `{fn}: {bn}` is outside the translated subset")
                fields[fn] = bn
                if not self.at("}"):
                    self.eat(",")
            self.eat("}")
            if sorted(fields) != ["day", "month", "year"]:
                fail(self.where(ptk), "the pattern has to name the three fields of `Date::Fixed`")
            self.eat(",")
            self.eat("true")
            self.eat(")")
            self.eat("=")
            self.eat("(")
            e1 = self.expr()
            self.eat(",")
            e2 = self.expr()
            self.eat(")")
            a = self.block()
            if self.at("else"):
                fail(self.where(), "`else` after this `if let` is outside the translated subset")
            return Node("if", line, c=Node("d3fixedcond", line, fields=fields, e1=e1, e2=e2), a=a, b=None)
        self.eat("Some")
        self.eat("(")
        name = self.ident()
        self.eat(")")
        self.eat("=")
        s_ = self.expr(nostruct=True)
        a = self.block()
        b = None
        if self.at("else"):
            self.i += 1
            b = self.block()
        return Node("if", line, c=Node("d3somecond", line, name=name, e=s_), a=a, b=b)

    def match_(self, nostruct):
        """`match e { Some(x) => a, None => b }` (either order)"""
        line = self.eat("match").line
        scrut = self.expr(nostruct=True)
        self.eat("{")
        if scrut.kind == "tuple":
            # `match (a, b) { (P, Q) [if g] => body, .. }` with P, Q among `None`, `Some(x)`, `Some(_)`, `_`
            arms = []
            while not self.at("}"):
                self.eat("(")
                pats = []
                while not self.at(")"):
                    if self.at("None"):
                        self.i += 1
                        pats.append(("none",))
                    elif self.at("_"):
                        self.i += 1
                        pats.append(("wild",))
                    elif self.at("Some"):
                        self.i += 1
                        self.eat("(")
                        pats.append(("some", self.ident()))
                        self.eat(")")
                    else:
                        fail(self.where(), "this pattern is outside the translated subset (dated3 functions)")
                    if not self.at(")"):
                        self.eat(",")
                self.eat(")")
                if len(pats) != len(scrut.items):
                    fail(self.where(), "the pattern does not have the shape of the scrutinee")
                guard = None
                if self.at("if"):
                    self.i += 1
                    guard = self.expr(nostruct=True)
                self.eat("=>")
                if self.at("{"):
                    body = self.block()
                    if self.at(","):
                        self.i += 1
                else:
                    bl = self.peek().line
                    body = Node("block", bl, stmts=[], tail=self.expr())
                    if not self.at("}"):
                        self.eat(",")
                arms.append((pats, guard, body))
            self.eat("}")
            return Node("d3tmatch", line, scrut=scrut, arms=arms)
        arms = {}
        for _ in range(2):
            ptk = self.peek()
            if self.at("None"):
                self.i += 1
                key, name = "none", None
            elif self.at("Some"):
                self.i += 1
                self.eat("(")
                name = self.ident()
                self.eat(")")
                key = "some"
            else:
                fail(self.where(), "only `match e { Some(x) => a, None => b }` is translated (dated3 functions)")
            if key in arms:
                fail(self.where(ptk), "two arms of the same shape")
            self.eat("=>")
            if self.at("{"):
                body = self.block()
                if self.at(","):
                    self.i += 1
            else:
                bl = self.peek().line
                body = Node("block", bl, stmts=[], tail=self.expr())
                if not self.at("}"):
                    self.eat(",")
            arms[key] = (name, body)
        self.eat("}")
        return Node("d3matchopt", line, scrut=scrut, arms=arms)


class D3Gen:
    def __init__(self, fname, rname, lean_name, params, ret, body, local_sigs, uses, fns):
        self.f, self.rname, self.lean_name, self.params, self.ret, self.body = fname, rname, lean_name, params, ret, body
        self.sigs, self.uses, self.fns = local_sigs, uses, fns
        self.n = 0
        self.externs = {}

    def w(self, node):
        return f"{self.f}:{node.line}"

    def fresh(self):
        self.n += 1
        return f"tmp{self.n}"

    def site(self, e):
        return f'"{self.rname}:{e.line}"'

    def gen(self, doc):
        env = {}
        for pn, pt in self.params:
            if re.fullmatch(r"tmp\d+|ext_\w+", pn) or pn in D3_BUILDERS:
                fail(self.f, f"{self.rname}: parameter name {pn} clashes with the translator's names")
            env[pn] = pt
        lines = self.block(self.body, env, lambda t, ty: self.ret_(t, ty, self.body))
        ps = [f"({lname(n)} : {d3_lty(t)})" for n, t in self.params] + [f"({n} : {t})" for n, t in sorted(self.externs.items())]
        return [doc, f"def {self.lean_name} {' '.join(ps)} : R {d3_lty(self.ret, False)} :="] + ["  " + x for x in lines]

    def ret_(self, term, ty, node):
        if not self.same(ty, self.ret):
            fail(self.w(node), f"type mismatch: the function returns {d3_show(self.ret)}, found {d3_show(ty)}")
        return [f".ok {atom(term)}"]

    def same(self, a, b):
        if a == ("opt", None) and isinstance(b, tuple) and b[0] == "opt":
            return True
        return a == b

    # -- blocks
    def block(self, b, env, k):
        def go(i, env):
            if i == len(b.stmts):
                if b.tail.kind == "return":
                    return self.cg(b.tail.e, env, lambda t, ty: self.ret_(t, ty, b.tail))
                if b.tail.kind == "unit":
                    fail(self.w(b), "a block without a value is outside the translated subset (dated3 functions)")
                return self.cg(b.tail, env, k)
            s_ = b.stmts[i]
            if s_.kind == "let":
                if s_.mut or s_.ann is not None:
                    fail(self.w(s_), "`let mut` / an annotated `let` is outside the translated subset (dated3 functions)")
                if re.fullmatch(r"tmp\d+|ext_\w+", s_.name) or s_.name in D3_BUILDERS or s_.name in D3_CALLEES:
                    fail(self.w(s_), f"variable name {s_.name} clashes with the translator's names")

                def bound(t, ty):
                    if ty is None or ty == ("opt", None):
                        fail(self.w(s_), "`let` of a value of unknown type")
                    env2 = dict(env)
                    env2[s_.name] = ty
                    return [f"let {lname(s_.name)} := {t}"] + go(i + 1, env2)
                return self.cg(s_.e, env, bound)
            if s_.kind == "exprstmt" and s_.e.kind == "if" and s_.e.c.kind in ("d3fixedcond", "d3somecond") and s_.e.b is None:
                return self.iflet_stmt(s_.e, env, lambda: go(i + 1, env))
            fail(self.w(s_), "statement outside the translated subset (dated3 functions)")
        return go(0, env)

    def diverges(self, b):
        return b.tail is not None and b.tail.kind == "return"

    def iflet_stmt(self, e, env, rest):
        """`if let PAT = v { ..; return r; }` followed by the rest of the block: a `match` whose other arm is the rest"""
        if not self.diverges(e.a):
            fail(self.w(e), "an `if let` without `else` has to end with `return ..;` (dated3 functions)")
        c = e.c
        if c.kind == "d3somecond":
            def got(t, ty):
                if not isinstance(ty, tuple) or ty[0] != "opt" or ty[1] is None:
                    fail(self.w(e), f"`if let Some(..)` on {d3_show(ty)}")
                if c.name in env:
                    fail(self.w(e), f"`{c.name}` shadows another variable: outside the translated subset")
                env2 = dict(env)
                env2[c.name] = ty[1]
                return [f"match {t} with", f"| some {lname(c.name)} => ("] + ["  " + x for x in self.block(e.a, env2, None)] + ["  )", "| none => ("] + \
                       ["  " + x for x in rest()] + ["  )"]
            return self.cg(c.e, env, got)

        def got1(t1, ty1):
            def got2(t2, ty2):
                if ty1 != "Date" or ty2 != "bool":
                    fail(self.w(e), f"`if let (Date::Fixed {{ .. }}, true)` on ({d3_show(ty1)}, {d3_show(ty2)})")
                env2 = dict(env)
                for fn, ft in (("year", ("opt", "u16")), ("month", "Month"), ("day", "u8")):
                    if c.fields[fn] in env:
                        fail(self.w(e), f"`{c.fields[fn]}` shadows another variable: outside the translated subset")
                    env2[c.fields[fn]] = ft
                pat = " ".join(lname(c.fields[fn]) for fn in ("year", "month", "day"))
                return [f"match {t1}, {t2} with", f"| .Fixed {pat}, true => ("] + ["  " + x for x in self.block(e.a, env2, None)] + ["  )", "| _, _ => ("] + \
                       ["  " + x for x in rest()] + ["  )"]
            return self.cg(c.e2, env, got2)
        return self.cg(c.e1, env, got1)

    # -- pure expressions (closures of `find`, conditions)
    def pure(self, e, env):
        box = []
        lines = self.cg(e, env, lambda t, ty: box.append((t, ty)) or [])
        if lines or len(box) != 1:
            fail(self.w(e), "an expression that can fail / return is outside the translated subset here (dated3 functions)")
        return box[0]

    def closure1(self, c, pty, env):
        if c.kind != "closure" or c.pat is None or not isinstance(c.pat, str):
            fail(self.w(c), "expected a closure `|x| e` (dated3 functions)")
        if c.pat in env or c.pat in D3_BUILDERS or c.pat in D3_CALLEES:
            fail(self.w(c), f"the closure parameter `{c.pat}` shadows another name: outside the translated subset")
        env2 = dict(env)
        env2[c.pat] = pty
        return lname(c.pat), env2

    def closure_m(self, c, pty, env):
        """a closure that may have effects: (Lean lines of `fun x => ..`, result type); `?` / `return` inside are errors"""
        x, env2 = self.closure1(c, pty, env)
        box = []
        saved, self.in_closure = getattr(self, "in_closure", False), True
        try:
            lines = self.cg(c.body, env2, lambda t, ty: box.append(ty) or [f".ok {atom(t)}"])
        finally:
            self.in_closure = saved
        if len(box) != 1:
            fail(self.w(c), "this closure is outside the translated subset")
        return [f"(fun ({x} : {d3_lty(pty)}) =>"] + ["    " + l_ for l_ in lines[:-1]] + ["    " + lines[-1] + ")"], box[0]

    def ext(self, name, lt):
        if self.externs.get(name, lt) != lt:
            fail(self.f, f"parameter {name} at two types")
        self.externs[name] = lt
        return name

    # -- expressions: `k(term, type)` continues with the value
    def cg(self, e, env, k):
        kind, w = e.kind, self.w(e)
        if kind == "paren":
            return self.cg(e.e, env, lambda t, ty: k(atom(t), ty))
        if kind in ("ref", "deref"):
            return self.cg(e.e, env, k)  # a shared reference to a value is the value
        if kind == "blockexpr":
            return self.block(e.b, env, k)
        if kind == "var":
            if e.name not in env:
                fail(w, f"unknown variable `{e.name}`")
            return k(lname(e.name), env[e.name])
        if kind == "lit":
            if e.suffix not in (None, "i32"):
                fail(w, "an integer literal that is not an `i32` is outside the translated subset (dated3 functions)")
            return k(str(e.value), "i32")
        if kind == "some":
            if getattr(e, "result", False):
                fail(w, "`Ok(..)` is outside the translated subset")
            return self.cg(e.e, env, lambda t, ty: k(f"some {atom(t)}", ("opt", ty)))
        if kind == "none":
            return k("none", ("opt", None))
        if kind == "try":
            if getattr(self, "in_closure", False):
                fail(w, "`?` inside a closure is outside the translated subset (dated3 functions)")
            if not (isinstance(self.ret, tuple) and self.ret[0] == "opt"):
                fail(w, "`?` in a function that does not return an Option")

            def got(t, ty):
                if not isinstance(ty, tuple) or ty[0] != "opt" or ty[1] is None:
                    fail(w, f"`?` on {d3_show(ty)}")
                v = self.fresh()
                return [f"match {t} with", "| none => .ok none", f"| some {v} =>"] + k(v, ty[1])
            return self.cg(e.e, env, got)
        if kind == "bin":
            return self.bin(e, env, k)
        if kind == "range":
            if not e.incl:
                fail(w, "`a..b` is outside the translated subset (dated3 functions)")
            return self.cg(e.l, env, lambda a, ta: self.cg(e.r, env, lambda b, tb: k(f"RangeInclusive.mk {atom(a)} {atom(b)}", ("rng", ta))
                           if ta == tb and ta in ("date", "i32") else fail(w, f"an inclusive range of {d3_show(ta)} ..= {d3_show(tb)}")))
        if kind == "arraylit":
            fail(w, "an array literal is translated only as `[x].into_iter()`")
        if kind == "if":
            return self.if_(e, env, k)
        if kind == "d3matchopt":
            def got(t, ty):
                if not isinstance(ty, tuple) or ty[0] != "opt" or ty[1] is None:
                    fail(w, f"`match` with `Some` / `None` arms on {d3_show(ty)}")
                name, sb = e.arms["some"]
                # `Some(x) => ..` may reuse the name of the scrutinee (the outer variable is hidden in that arm only)
                if name in env and not (e.scrut.kind == "var" and e.scrut.name == name):
                    fail(w, f"`{name}` shadows another variable: outside the translated subset")
                env2 = dict(env)
                env2[name] = ty[1]
                return [f"match {t} with", f"| some {lname(name)} => ("] + ["  " + x for x in self.block(sb, env2, k)] + ["  )", "| none => ("] + \
                       ["  " + x for x in self.block(e.arms["none"][1], env, k)] + ["  )"]
            return self.cg(e.scrut, env, got)
        if kind == "call":
            return self.call(e, env, k)
        if kind == "method":
            return self.method(e, env, k)
        if kind == "return":
            if getattr(self, "in_closure", False):
                fail(w, "`return` inside a closure is outside the translated subset")
            return self.cg(e.e, env, lambda t, ty: self.ret_(t, ty, e))
        fail(w, f"this expression ({kind}) is outside the translated subset (dated3 functions)")

    def if_(self, e, env, k):
        w = self.w(e)
        if e.c.kind == "d3somecond" and e.b is not None:
            def got(t, ty):
                if not isinstance(ty, tuple) or ty[0] != "opt" or ty[1] is None:
                    fail(w, f"`if let Some(..)` on {d3_show(ty)}")
                if e.c.name in env:
                    fail(w, f"`{e.c.name}` shadows another variable: outside the translated subset")
                env2 = dict(env)
                env2[e.c.name] = ty[1]
                return [f"match {t} with", f"| some {lname(e.c.name)} => ("] + ["  " + x for x in self.block(e.a, env2, k)] + ["  )", "| none => ("] + \
                       ["  " + x for x in self.block(e.b, env, k)] + ["  )"]
            return self.cg(e.c.e, env, got)
        fail(w, "this `if` is outside the translated subset (dated3 functions)")

    def bin(self, e, env, k):
        w = self.w(e)
        if e.op in ("+", "-"):
            def got(a, ta):
                def got2(b, tb):
                    if ta != "i32" or tb != "i32":
                        fail(w, f"`{e.op}` on {d3_show(ta)}, {d3_show(tb)}: only `i32` arithmetic is translated (dated3 functions)")
                    v = self.fresh()
                    return [f"bnd ({'add' if e.op == '+' else 'sub'} .i32 {self.site(e)} {atom(a)} {atom(b)}) fun {v} =>"] + k(v, "i32")
                return self.cg(e.r, env, got2)
            return self.cg(e.l, env, got)
        if e.op in ("==", "!=", "<", "<=", ">", ">="):
            def got(a, ta):
                def got2(b, tb):
                    if ta != tb or (ta not in ("date", "i32", "u16", "u8") and not (ta == "Date" and e.op in ("==", "!="))):
                        fail(w, f"`{e.op}` on {d3_show(ta)}, {d3_show(tb)} is outside the translated subset (dated3 functions)")
                    op = {"==": "=", "!=": "≠", "<": "<", "<=": "≤", ">": ">", ">=": "≥"}[e.op]
                    return k(f"decide ({atom(a)} {op} {atom(b)})", "bool")
                return self.cg(e.r, env, got2)
            return self.cg(e.l, env, got)
        fail(w, f"operator `{e.op}` is outside the translated subset (dated3 functions)")

    def args(self, args, env, k):
        def go(i, acc):
            if i == len(args):
                return k(acc)
            return self.cg(args[i], env, lambda t, ty: go(i + 1, acc + [(t, ty)]))
        return go(0, [])

    def call(self, e, env, k):
        w, p = self.w(e), "::".join(e.path)
        if getattr(e, "alias", None):
            fail(w, f"`{e.alias}::{p}(..)` is outside the translated subset (dated3 functions)")
        if p in env:
            fail(w, f"a call of the local `{p}` is outside the translated subset")
        if p == "i32::from":
            if len(e.args) != 1:
                fail(w, "`i32::from` takes one argument")
            return self.cg(e.args[0], env, lambda t, ty: k(t, "i32") if ty in ("u16", "u8", "i32") else fail(w, f"`i32::from` of {d3_show(ty)}"))
        if p == "NaiveDate::from_ymd_opt":
            # chrono's `NaiveDate::from_ymd_opt(year: i32, month: u32, day: u32)` in its RustChrono.lean meaning; `month.into()` is the
            # macro-generated `From<Month> for u32` (the discriminant cast, DATED_ENUM_INTO), `day.into()` the value-preserving `u8 -> u32`
            if len(e.args) != 3 or ("chrono", "NaiveDate") not in self.uses:
                fail(w, "`NaiveDate::from_ymd_opt` takes three arguments (and `chrono::NaiveDate` has to be imported)")

            def arg(a, want, k2):
                if a.kind == "method" and a.name == "into" and not a.args:
                    def conv(t, ty):
                        if ty == "Month" and want == "u32" and DATED_ENUM_INTO_OK.get(("Month", "u32")):
                            return k2(f"wrap .u32 (Month.discr {atom(t)})")
                        if ty in ("u8", "u16") and want == "u32":
                            return k2(t)
                        fail(self.w(a), f"`.into()` from {d3_show(ty)} towards {want} is outside the translated subset")
                    return self.cg(a.e, env, conv)
                return self.cg(a, env, lambda t, ty: k2(t) if ty == want else fail(self.w(a), f"expected {want}, found {d3_show(ty)}"))
            return arg(e.args[0], "i32", lambda y: arg(e.args[1], "u32", lambda m: arg(e.args[2], "u32", lambda d:
                       k(f"Chrono.from_ymd_opt {atom(y)} {atom(m)} {atom(d)}", ("opt", "date")))))
        if p not in self.fns:
            fail(w, f"`{p}` is not a function of {self.f}: outside the translated subset")
        if p == "date_on_year":
            if len(e.args) != 3 or e.args[2].kind != "var" or e.args[2].name not in D3_BUILDERS or e.args[2].name in env or e.args[2].name not in self.fns:
                fail(w, "`date_on_year(date, year, valid_ymd_after | valid_ymd_before)`: the third argument has to be one of these two functions of the file")

            def got(a):
                if [ty for _, ty in a] != ["Date", "i32"]:
                    fail(w, "type mismatch in the call of `date_on_year`")
                v = self.fresh()
                return [f"bnd (DateFilter.date_on_year {atom(a[0][0])} {atom(a[1][0])} {D3_BUILDERS[e.args[2].name]}) fun {v} =>"] + k(v, ("opt", "date"))
            return self.args(e.args[:2], env, got)
        if p in self.sigs:  # a function of this section: tuple arguments are flattened
            flat = []
            for a in e.args:
                flat += a.items if a.kind == "tuple" else [a]
            pts, rt, ln, exts = self.sigs[p]
            shape = [len(a.items) if a.kind == "tuple" else 0 for a in e.args]
            if shape != self.sigs[p + "#shape"]:
                fail(w, f"the arguments of `{p}` do not have the shape of its parameters")
        elif p in D3_CALLEES:
            flat = e.args
            pts, rt, ln, exts = D3_CALLEES[p]
        elif p in D3_FN_HOLES:
            pts, rt, lt = D3_FN_HOLES[p]
            flat, ln, exts = e.args, None, []
        else:
            fail(w, f"a call of `{p}` is outside the translated subset (dated3 functions)")

        def got(a):
            if len(a) != len(pts) or any(ty != pt for (_, ty), pt in zip(a, pts)):
                fail(w, f"type mismatch in the call of `{p}`: expected ({', '.join(d3_show(t) for t in pts)}), found ({', '.join(d3_show(ty) for _, ty in a)})")
            ts = " ".join(atom(t) for t, _ in a)
            if ln is None:
                return k(f"{self.ext('ext_' + p, lt)} {ts}", rt)
            for x in exts:
                self.ext(x, D3_EXT_TY[x])
            v = self.fresh()
            return [f"bnd ({ln} {ts}{''.join(' ' + x for x in exts)}) fun {v} =>"] + k(v, rt)
        return self.args(flat, env, got)

    def chain(self, e):
        """`(a..=b).filter_map(c1).map(c2)`: (range node, c1, c2) or None"""
        if e.kind == "method" and e.name == "map" and len(e.args) == 1 and e.e.kind == "method" and e.e.name == "filter_map" and len(e.e.args) == 1:
            r = e.e.e
            while r.kind == "paren":
                r = r.e
            if (r.kind == "range" and r.incl) or r.kind == "var":
                return r, e.e.args[0], e.args[0]
        return None

    def chain_parts(self, ch, env, k):
        """evaluates the bounds of the range, then `k(term of the list of years, lines of the two closures, item type)`"""
        r, c1, c2 = ch

        def got(rt, rty):
            if rty != ("rng", "i32"):
                fail(self.w(r), f"an adaptor chain over {d3_show(rty)}: only a range of `i32` is translated")
            f1, t1 = self.closure_m(c1, "i32", env)
            if not isinstance(t1, tuple) or t1[0] != "opt" or t1[1] is None:
                fail(self.w(c1), "the closure of `filter_map` does not return an Option")
            f2, t2 = self.closure_m(c2, t1[1], env)
            v = self.fresh()
            return [f"let {v} := {rt}"] + k(f"(rangeInclList {v}.start {v}.«end»)", f1, f2, t2)
        return self.cg(r, env, got)

    def method(self, e, env, k):
        w, name, recv = self.w(e), e.name, e.e
        while recv.kind == "paren":
            recv = recv.e
        if name == "date" and recv.kind == "var" and recv.name == "DATE_END" and "DATE_END" not in env:
            if e.args:
                fail(w, "`DATE_END.date()` takes no argument")
            if ("crate::opening_hours", "DATE_END") not in self.uses:
                fail(w, "`DATE_END` is read as `crate::opening_hours::DATE_END`, but the file does not import it from there")
            return k("Chrono.DATE_END", "date")
        if name == "into_iter" and recv.kind == "arraylit" and not e.args:
            def got(a):
                if not a or any(ty != a[0][1] for _, ty in a):
                    fail(w, "the elements of the array do not have one type")
                return k("[" + ", ".join(t for t, _ in a) + "]", ("list", a[0][1]))
            return self.args(recv.elems, env, got)
        ch = self.chain(e)
        if ch is not None:
            # the items of the chain, all of them, in order, BEFORE the consumer runs (the consumer takes a list): see RustDated3.lean
            def parts(ys, f1, f2, ity):
                v = self.fresh()
                return [f"bnd (filterMapMapM"] + ["  " + x for x in f1] + ["  " + x for x in f2] + [f"  {ys}) fun {v} =>"] + k(v, ("list", ity))
            return self.chain_parts(ch, env, parts)
        if name == "unwrap_or" and len(e.args) == 1 and e.e.kind == "method" and e.e.name == "find" and len(e.e.args) == 1 and self.chain(e.e.e) is not None:
            # `(a..=b).filter_map(c1).map(c2).find(c3).unwrap_or(d)`: lazy, one item at a time (`filterMapMapFindM`)
            def parts(ys, f1, f2, ity):
                x, env2 = self.closure1(e.e.args[0], ity, env)
                pt, pty = self.pure(e.e.args[0].body, env2)
                if pty != "bool":
                    fail(w, "the closure of `.find()` does not return a bool")
                dt, dty = self.pure(e.args[0], env)  # evaluated before the chain runs, without effects
                if dty != ity:
                    fail(w, f"type mismatch: `.unwrap_or({d3_show(dty)})` on Option<{d3_show(ity)}>")
                v = self.fresh()
                return [f"bnd (filterMapMapFindM"] + ["  " + x for x in f1] + ["  " + x for x in f2] + [f"  (fun ({x} : {d3_lty(ity)}) => {pt})", f"  {ys}) fun {v} =>"] + \
                    k(f"Option.getD {v} {atom(dt)}", ity)
            return self.chain_parts(self.chain(e.e.e), env, parts)

        def on(t, ty):
            if name == "apply" and ty == "DateOffset":
                if len(e.args) != 1:
                    fail(w, "`.apply()` takes one argument")

                def got(a, ta):
                    if ta != "date":
                        fail(w, f"`DateOffset::apply` of {d3_show(ta)}")
                    v = self.fresh()
                    return [f"bnd (DateOffset.apply {atom(t)} {atom(a)}) fun {v} =>"] + k(v, "date")
                return self.cg(e.args[0], env, got)
            if name == "contains" and ty == ("rng", "date"):
                if len(e.args) != 1:
                    fail(w, "`.contains()` takes one argument")
                return self.cg(e.args[0], env, lambda a, ta: k(f"(decide ({atom(t)}.start ≤ {atom(a)}) && decide ({atom(a)} ≤ {atom(t)}.«end»))", "bool")
                               if ta == "date" else fail(w, f"`.contains(..)` of a {d3_show(ta)}"))
            if name in ("start", "end") and isinstance(ty, tuple) and ty[0] == "rng" and not e.args:
                return k(f"{atom(t)}.{lname(name)}", ty[1])
            fail(w, f"method `.{name}()` on {d3_show(ty)} is outside the translated subset (dated3 functions)")
        return self.cg(recv, env, on)


# -- [dated3 extension], second part: `ensure_increasing_iter` and `intervals_from_bounds` ------------------------
# Functions of the shape `let mut IT = <list>.peekable(); .. std::iter::from_fn(move || BODY)`: the `mut` Peekable iterators are
# the lists of what is left of them (state), BODY is a STEP function `state -> R (Option item × state)` and the function is
# `fromFn step fuel state` (OH/Model/RustSeq.lean: the items collected, at most `fuel` calls).  Inside BODY:
#   `let v = IT.next()?;`                          match IT with | [] => return None | v :: IT => ..
#   `while IT.next_if(|x| c).is_some() {}`         IT := IT.dropWhile (fun x => c)     (`next_if` pops the head while `c` holds)
#   `if let Some(x) = IT2.peek() { <that loop> }`  IT := match IT2.head? with | some x => IT.dropWhile .. | none => IT
#   `IT.next();`  `if c { IT.next(); }`            IT := IT.tail / IT := if c then IT.tail else IT
#   `let r = match (A.peek().copied(), B.peek().copied()) { (None, _) => return None, (Some(a), None) => { .. v }, (Some(a), Some(b))
#    if g => { .. v }, (Some(_), Some(_)) => unreachable!() };`   a `match` on the two heads; a guarded arm falls through to the
#    LATER unguarded arm of the same shape (first-match semantics), which is emitted as its `else` only
#   the tail `Some(v)`.
D3_UNREACHABLE = '.error (.panic "internal error: entered unreachable code")'


class D3StepGen:
    def __init__(self, fname, rname, state, generic, uses):
        self.f, self.rname, self.state, self.generic, self.uses = fname, rname, list(state), generic, uses

    def w(self, node):
        return f"{self.f}:{node.line}"

    def st(self):
        return lname(self.state[0]) if len(self.state) == 1 else "(" + ", ".join(lname(n) for n in self.state) + ")"

    def state_var(self, e):
        while e.kind in ("paren", "ref", "deref"):
            e = e.e
        return e.name if e.kind == "var" and e.name in self.state else None

    def is_call0(self, e, name):
        """`IT.name()` on a state variable -> IT or None"""
        if e.kind == "method" and e.name == name and not e.args:
            return self.state_var(e.e)
        return None

    def pexpr(self, e, env):
        w = self.w(e)
        if e.kind in ("paren",):
            return atom(self.pexpr(e.e, env))
        if e.kind in ("ref", "deref"):
            return self.pexpr(e.e, env)
        if e.kind == "var":
            if e.name not in env:
                fail(w, f"unknown variable `{e.name}` (the closure of `from_fn` may mention its own variables only)")
            return lname(e.name)
        if e.kind == "some":
            return f"some {atom(self.pexpr(e.e, env))}"
        if e.kind == "bin" and e.op in ("<", "<=", ">", ">=", "==", "!="):
            if e.op in ("==", "!=") and self.generic:
                fail(w, "`==` on the generic element type is outside the translated subset")
            op = {"==": "=", "!=": "≠", "<": "<", "<=": "≤", ">": ">", ">=": "≥"}[e.op]
            return f"decide ({atom(self.pexpr(e.l, env))} {op} {atom(self.pexpr(e.r, env))})"
        if e.kind == "range" and e.incl and not self.generic:
            return f"RangeInclusive.mk {atom(self.pexpr(e.l, env))} {atom(self.pexpr(e.r, env))}"
        if e.kind == "method" and e.name == "date" and not e.args and e.e.kind == "var" and e.e.name == "DATE_END" and "DATE_END" not in env and not self.generic:
            if ("crate::opening_hours", "DATE_END") not in self.uses:
                fail(w, "`DATE_END` is read as `crate::opening_hours::DATE_END`, but the file does not import it from there")
            return "Chrono.DATE_END"
        fail(w, f"this expression ({e.kind}) is outside the translated subset (the closure of `from_fn`)")

    def drop_while(self, e, env):
        """`while IT.next_if(|x| c).is_some() {}` -> (IT, Lean term of the new IT) or None"""
        if not (e.kind == "if" and e.c.kind == "d3whilecond"):
            return None
        c = e.c.c
        if not (c.kind == "method" and c.name == "is_some" and not c.args and c.e.kind == "method" and c.e.name == "next_if" and len(c.e.args) == 1):
            fail(self.w(e), "only `while IT.next_if(|x| c).is_some() {}` is translated")
        it = self.state_var(c.e.e)
        cl = c.e.args[0]
        if it is None or cl.kind != "closure" or not isinstance(cl.pat, str) or cl.pat in env or cl.pat in self.state:
            fail(self.w(e), "only `while IT.next_if(|x| c).is_some() {}` on a `mut` Peekable of the function is translated")
        env2 = dict(env)
        env2[cl.pat] = "elem"
        return it, f"List.dropWhile (fun {lname(cl.pat)} => {self.pexpr(cl.body, env2)}) {lname(it)}"

    def bind_ok(self, name, env, node):
        if name in env or name in self.state or re.fullmatch(r"tmp\d+|ext_\w+|fuel", name):
            fail(self.w(node), f"`{name}` shadows another variable / clashes with the translator's names: outside the translated subset")

    def block(self, b, env, k):
        """lines of the statements, then `k(term of the tail value)`; `return None` ends with `.ok (none, state)`"""
        def go(i, env):
            if i == len(b.stmts):
                t = b.tail
                if t.kind == "return":
                    if t.e.kind != "none":
                        fail(self.w(t), "only `return None` is translated inside the closure of `from_fn`")
                    return [f".ok (none, {self.st()})"]
                if t.kind == "unreachable":
                    return [D3_UNREACHABLE]
                if t.kind == "unit":
                    fail(self.w(b), "a block without a value is outside the translated subset here")
                return k(self.pexpr(t, env))
            s_ = b.stmts[i]
            if s_.kind == "let" and not s_.mut and s_.ann is None:
                self.bind_ok(s_.name, env, s_)
                if s_.e.kind == "try" and self.is_call0(s_.e.e, "next"):
                    it = lname(self.is_call0(s_.e.e, "next"))
                    env2 = dict(env)
                    env2[s_.name] = "elem"
                    return [f"match {it} with", f"| [] => .ok (none, {self.st()})", f"| {lname(s_.name)} :: {it} =>"] + go(i + 1, env2)
                if s_.e.kind == "d3tmatch":
                    env2 = dict(env)
                    env2[s_.name] = "value"
                    return self.tmatch(s_.e, env, lambda v: [f"let {lname(s_.name)} := {v}"] + go(i + 1, env2))
                fail(self.w(s_), "this `let` is outside the translated subset (the closure of `from_fn`)")
            if s_.kind == "exprstmt":
                e = s_.e
                dw = self.drop_while(e, env)
                if dw:
                    return [f"let {lname(dw[0])} := {dw[1]}"] + go(i + 1, env)
                if e.kind == "if" and e.c.kind == "d3somecond" and e.b is None:
                    it2 = self.is_call0(e.c.e, "peek")
                    inner = e.a
                    loop = inner.stmts[0].e if (len(inner.stmts) == 1 and inner.tail.kind == "unit" and inner.stmts[0].kind == "exprstmt") else \
                        inner.tail if (not inner.stmts and inner.tail.kind == "if") else None
                    if it2 is None or loop is None:
                        fail(self.w(e), "only `if let Some(x) = IT.peek() { while IT2.next_if(..).is_some() {} }` is translated")
                    self.bind_ok(e.c.name, env, e)
                    env2 = dict(env)
                    env2[e.c.name] = "elem"
                    dw = self.drop_while(loop, env2)
                    if not dw:
                        fail(self.w(e), "only `if let Some(x) = IT.peek() { while IT2.next_if(..).is_some() {} }` is translated")
                    return [f"let {lname(dw[0])} := match List.head? {lname(it2)} with | some {lname(e.c.name)} => {dw[1]} | none => {lname(dw[0])}"] + go(i + 1, env)
                if self.is_call0(e, "next"):
                    it = lname(self.is_call0(e, "next"))
                    return [f"let {it} := List.tail {it}"] + go(i + 1, env)
                if e.kind == "if" and e.c.kind not in ("d3somecond", "d3fixedcond", "d3whilecond") and e.b is not None and not e.b.stmts and e.b.tail.kind == "unit" \
                        and len(e.a.stmts) == 1 and e.a.tail.kind == "unit" and e.a.stmts[0].kind == "exprstmt" and self.is_call0(e.a.stmts[0].e, "next"):
                    it = lname(self.is_call0(e.a.stmts[0].e, "next"))
                    return [f"let {it} := if {self.pexpr(e.c, env)} then List.tail {it} else {it}"] + go(i + 1, env)
            fail(self.w(s_), "statement outside the translated subset (the closure of `from_fn`)")
        return go(0, env)

    def tmatch(self, e, env, k):
        heads = []
        for it_ in e.scrut.items:
            if not (it_.kind == "method" and it_.name == "copied" and not it_.args and self.is_call0(it_.e, "peek")):
                fail(self.w(e), "only `match (A.peek().copied(), B.peek().copied()) { .. }` is translated")
            heads.append(f"List.head? {lname(self.is_call0(it_.e, 'peek'))}")
        shape = lambda pats: tuple(p[0] for p in pats)
        lines = [f"match {', '.join(heads)} with"]
        used_as_else = set()
        for j, (pats, guard, body) in enumerate(e.arms):
            if j in used_as_else:
                continue
            env2 = dict(env)
            for p in pats:
                if p[0] == "some" and p[1] != "_":
                    self.bind_ok(p[1], env2, e)
                    env2[p[1]] = "elem"
            pat = ", ".join({"none": "none", "wild": "_"}.get(p[0]) or f"some {lname(p[1])}" for p in pats)
            bl = self.block(body, env2, k)
            if guard is None:
                lines += [f"| {pat} => ("] + ["  " + x for x in bl] + ["  )"]
                continue
            els = None
            for j2 in range(j + 1, len(e.arms)):
                p2, g2, b2 = e.arms[j2]
                if g2 is None and shape(p2) == shape(pats) and all(p[0] != "some" or p[1] == "_" for p in p2):
                    els = j2
                    break
            if els is None:
                fail(self.w(e), "a guarded arm needs a later unguarded arm of the same shape with `_` binders (first-match semantics): outside the translated subset")
            used_as_else.add(els)
            lines += [f"| {pat} => (", f"  if {self.pexpr(guard, env2)} then ("] + ["    " + x for x in bl] + ["    )", "  else ("] + \
                     ["    " + x for x in self.block(e.arms[els][2], env, k)] + ["    )", "  )"]
        return lines


def d3_step_fn(tk, p, name, params, generic, item_lty, sigs, uses):
    """`p` stands at the `{` of the body of `name`; `params`: names of the list parameters -> Lean lines of `name.next` and `name`"""
    body = p.block()
    elem = "T" if generic else "Int"
    binder = "{T : Type} [LE T] [LT T] [DecidableLE T] [DecidableLT T] " if generic else ""
    state, pre, known = [], [], set(params)
    for s_ in body.stmts:
        if s_.kind != "let" or not s_.mut or s_.ann is not None:
            fail(f"{F_DF}:{s_.line}", f"`{name}`: only `let mut IT = <iterator>.peekable();` may precede `std::iter::from_fn`")
        e = s_.e
        if not (e.kind == "method" and e.name == "peekable" and not e.args):
            fail(f"{F_DF}:{s_.line}", f"`{name}`: only `let mut IT = <iterator>.peekable();` may precede `std::iter::from_fn`")
        src = e.e
        if src.kind == "var" and src.name in known:
            if src.name != s_.name:
                pre.append(f"let {lname(s_.name)} := {lname(src.name)}")
        elif src.kind == "call" and src.path == ["ensure_increasing_iter"] and "ensure_increasing_iter" in sigs and len(src.args) == 1 \
                and src.args[0].kind == "method" and src.args[0].name == "into_iter" and not src.args[0].args and src.args[0].e.kind == "var" and src.args[0].e.name in known:
            pre.append(f"bnd (ensure_increasing_iter {lname(src.args[0].e.name)} fuel) fun {lname(s_.name)} =>")
        else:
            fail(f"{F_DF}:{s_.line}", f"`{name}`: the source of this Peekable is outside the translated subset")
        if s_.name in state or re.fullmatch(r"tmp\d+|ext_\w+|fuel|s", s_.name):
            fail(f"{F_DF}:{s_.line}", f"`{s_.name}` is declared twice / clashes with the translator's names")
        state.append(s_.name)
        known.add(s_.name)
    t = body.tail
    if not (t.kind == "call" and t.path == ["std", "iter", "from_fn"] and len(t.args) == 1 and t.args[0].kind == "thunk" and getattr(t.args[0], "move", False)
            and t.args[0].e.kind == "blockexpr") or not 1 <= len(state) <= 2:
        fail(f"{F_DF}:{t.line}", f"`{name}`: the body has to end with `std::iter::from_fn(move || {{ .. }})` over one or two `mut` Peekables")
    g = D3StepGen(F_DF, name, state, generic, uses)
    step = g.block(t.args[0].e.b, {}, lambda v: [f".ok ({v}, {g.st()})"])
    sty = f"List {elem}" if len(state) == 1 else f"(List {elem} × List {elem})"
    ps = " ".join(f"({lname(n)} : List {elem})" for n in state)
    L = [f"/-- the closure of `std::iter::from_fn` in `{name}` ({F_DF}:{t.line}): ONE call, from what is left of the Peekable iterator(s) "
         f"({', '.join(state)}) to the item and what is left afterwards -/",
         f"def {name}.next {binder}{ps} : R (Option {item_lty} × {sty}) :="] + ["  " + x for x in step] + [""]
    call = f"fromFn {name}.next fuel {lname(state[0])}" if len(state) == 1 else f"fromFn (fun s => {name}.next s.1 s.2) fuel ({lname(state[0])}, {lname(state[1])})"
    L += [f"/-- `{name}` ({F_DF}): the items of the iterator it returns, collected; `fuel` bounds the number of calls of the closure (running out is an "
          "error outcome; the theorems show which fuel suffices) -/",
          f"def {name} {binder}{' '.join(f'({lname(n)} : List {elem})' for n in params)} (fuel : Nat) : R (List {item_lty}) :="] + ["  " + x for x in pre] + ["  " + call, ""]
    return L


def d3_find_arm(tk, fn_at, rel):
    """the `Date { start: (a, b), end: (c, d) } => { .. }` arm of the `match self { .. }` that ENDS the body of the function whose
    `fn` token is at `fn_at`: (names a b c d, token index of the arm's `{`, tokens between the body's `{` and `match`)"""
    i = fn_at
    while tk[i].text != "{" or tk[i].kind != "op":
        if tk[i].kind == "eof":
            fail(rel, "no body")
        i += 1
    bo, be = i, matching(tk, i)
    depth, mo = 0, None
    for j in range(bo + 1, be):
        t = tk[j]
        if t.kind == "op" and t.text in "{([":
            depth += 1
        elif t.kind == "op" and t.text in "})]":
            depth -= 1
        elif depth == 0 and t.text == "match" and tk[j + 1].text == "self" and tk[j + 2].text == "{":
            mo = j
            break
    if mo is None or matching(tk, mo + 2) != be - 1:
        fail(f"{rel}:{tk[bo].line}", "the body does not end with `match self { .. }`")
    j, me = mo + 3, be - 1
    want = ["ds", "::", "MonthdayRange", "::", "Date", "{", "start", ":", "(", None, ",", None, ")", ",", "end", ":", "(", None, ",", None, ")"]
    while j < me:
        ps = j
        while tk[j].text != "=>":
            if j >= me:
                fail(f"{rel}:{tk[ps].line}", "arm without `=>`")
            if tk[j].kind == "op" and tk[j].text in "{([":
                j = matching(tk, j)
            j += 1
        pat = tk[ps:j]
        j += 1
        if tk[j].text != "{":
            fail(f"{rel}:{tk[j].line}", "an arm of `match self` that is not a block is outside the translated subset (dated3 functions)")
        body = j
        j = matching(tk, j) + 1
        if j < me and tk[j].text == ",":
            j += 1
        texts = [x.text for x in pat]
        if texts[:5] == want[:5]:
            if texts and texts[-1] == "}" and texts[-2] == ",":
                texts = texts[:-2] + ["}"]
            if len(texts) != len(want) + 1 or texts[-1] != "}" or any(a is not None and a != b for a, b in zip(want, texts)):
                fail(f"{rel}:{pat[0].line}", "the pattern of the `Date` arm has to be `ds::MonthdayRange::Date { start: (a, b), end: (c, d) }`")
            names = [texts[n] for n, a in enumerate(want) if a is None]
            if len(set(names)) != 4 or any(not re.fullmatch(r"[a-z_][a-z0-9_]*", n) for n in names):
                fail(f"{rel}:{pat[0].line}", "the bindings of the `Date` arm have to be four different plain names")
            return names, body, tk[bo + 1:mo]
    fail(f"{rel}:{tk[mo].line}", "no arm `ds::MonthdayRange::Date { .. }`")


def dated3_section(toks):
    """the Lean text (lines) of the dated3 targets"""
    tk = toks(F_DF)
    uses = file_uses(tk)
    for imp in sorted(D3_IMPORTS):
        if imp not in uses:
            fail(F_DF, f"`use {imp[0]}::{imp[1]};` not found: the name `{imp[1]}` is read as that item")
    texts = [x.text for x in tk]
    want = "use opening_hours_syntax :: rules :: day :: { self as ds , Date , Month } ;".split()
    if ALIASES[F_DF]["ds"] != "opening_hours_syntax::rules::day" or not any(texts[j:j + len(want)] == want for j in range(min(len(texts), 400))):
        fail(F_DF, "`Date` is read as `opening_hours_syntax::rules::day::Date`, but the file does not import it from there")
    fns = set(find_local_fns(tk))
    for n in list(D3_CALLEES) + list(D3_BUILDERS) + list(D3_FN_HOLES) + ["date_on_year", "intervals_from_bounds", "single_day_intervals"]:
        if n not in fns:
            fail(F_DF, f"free function `{n}` not found")
    for n, want_sig in D3_SIGS.items():
        got_sig = d3_sig_text(tk, find_impl_fns(tk, F_DF, None, None, [n])[n])
        if got_sig.rstrip() != want_sig and got_sig.replace(" , )", " )") != want_sig.replace(" , )", " )"):
            fail(F_DF, f"the signature of `{n}` changed: expected `{want_sig}`, found `{got_sig}` (tables of the dated3 extension)")
    dtk0 = toks(F_DAY)
    got_sig = d3_sig_text(dtk0, find_impl_fns(dtk0, F_DAY, "DateOffset", None, ["apply"])["apply"])
    if got_sig != D3_SIG_APPLY:
        fail(F_DAY, f"the signature of `DateOffset::apply` changed: expected `{D3_SIG_APPLY}`, found `{got_sig}` (tables of the dated3 extension)")
    # the declaration of the variant the arms destructure
    dtk = toks(F_DAY)
    decl = ["Date", "{", "start", ":", "(", "Date", ",", "DateOffset", ")", ",", "end", ":", "(", "Date", ",", "DateOffset", ")", ",", "}"]
    ok = False
    for i, t in enumerate(dtk):
        if t.text == "enum" and dtk[i + 1].text == "MonthdayRange":
            ee = matching(dtk, i + 2)
            texts = [x.text for x in dtk[i + 2:ee + 1]]
            ok = any(texts[j:j + len(decl)] == decl for j in range(len(texts)))
    if not ok:
        fail(F_DAY, "`enum MonthdayRange { .. Date { start: (Date, DateOffset), end: (Date, DateOffset), } }` not found")
    L = ["/-! ### [dated3 extension] `single_interval_from_bounds` and the `Date { .. }` arms of `MonthdayRange` (opening-hours/src/filter/date_filter.rs) -/", "",
         "namespace Dated3", ""]
    mk = lambda: D3Parser(tk, F_DF, {"DateOffset"}, uses=std_uses(tk), enums={"Month"}, aliases={"ds"}, modelled=True, penums={"Date"})
    sigs = {}
    # 0. `ensure_increasing_iter<T: Ord>(iter: impl Iterator<Item = T>) -> impl Iterator<Item = T>` and
    #    `intervals_from_bounds(bounds_start: impl IntoIterator<Item = NaiveDate>, bounds_end: ..) -> impl Iterator<Item = RangeInclusive<NaiveDate>>`
    p = mk()
    p.i = find_impl_fns(tk, F_DF, None, None, ["ensure_increasing_iter"])["ensure_increasing_iter"]
    for x in ("fn", "ensure_increasing_iter", "<", "T", ":", "Ord", ">", "("):
        p.eat(x)
    pn = p.ident()
    for x in (":", "impl", "Iterator", "<", "Item", "=", "T", ">", ")", "->", "impl", "Iterator", "<", "Item", "=", "T", ">"):
        p.eat(x)
    L += d3_step_fn(tk, p, "ensure_increasing_iter", [pn], True, "T", sigs, uses)
    sigs["ensure_increasing_iter"] = True
    p = mk()
    p.i = find_impl_fns(tk, F_DF, None, None, ["intervals_from_bounds"])["intervals_from_bounds"]
    for x in ("fn", "intervals_from_bounds", "("):
        p.eat(x)
    pns = []
    for _ in range(2):
        pns.append(p.ident())
        for x in (":", "impl", "IntoIterator", "<", "Item", "=", "NaiveDate", ">"):
            p.eat(x)
        if p.at(","):
            p.i += 1
    for x in (")", "->", "impl", "Iterator", "<", "Item", "=", "RangeInclusive", "<", "NaiveDate"):
        p.eat(x)
    p.close_angle()
    p.close_angle()
    L += d3_step_fn(tk, p, "intervals_from_bounds", pns, False, "(RangeInclusive Int)", sigs, uses)
    del sigs["ensure_increasing_iter"]
    # 1. `single_interval_from_bounds((start, start_offset): (ds::Date, ds::DateOffset), (end, end_offset): (..)) -> Option<RangeInclusive<NaiveDate>>`
    name = "single_interval_from_bounds"
    p = mk()
    p.i = find_impl_fns(tk, F_DF, None, None, [name])[name]
    line = p.eat("fn").line
    p.eat(name)
    p.eat("(")
    params = []
    for _ in range(2):
        p.eat("(")
        a = p.ident()
        p.eat(",")
        b = p.ident()
        for x in (")", ":", "(", "ds", "::", "Date", ",", "ds", "::", "DateOffset", ")"):
            p.eat(x)
        if p.at(","):
            p.i += 1
        params += [(a, "Date"), (b, "DateOffset")]
    p.eat(")")
    for x in ("->", "Option", "<", "RangeInclusive", "<", "NaiveDate"):
        p.eat(x)
    p.close_angle()
    p.close_angle()
    if len({n for n, _ in params}) != 4:
        fail(f"{F_DF}:{line}", "the four parameter names have to differ")
    body = p.block()
    ret = ("opt", ("rng", "date"))
    g = D3Gen(F_DF, name, name, params, ret, body, sigs, uses, fns)
    doc = (f"/-- `{name}(({params[0][0]}, {params[1][0]}): (ds::Date, ds::DateOffset), ({params[2][0]}, {params[3][0]}): (ds::Date, ds::DateOffset)) -> "
           f"Option<RangeInclusive<NaiveDate>>` ({F_DF}:{line}); the tuple parameters are flattened -/")
    L += g.gen(doc) + [""]
    if g.externs:
        fail(F_DF, f"{name}: unexpected named parameters {sorted(g.externs)}")
    sigs[name] = (["Date", "DateOffset", "Date", "DateOffset"], ret, name, [])
    sigs[name + "#shape"] = [2, 2]
    # 1b. `single_day_intervals(month: Month, day: u8, years: RangeInclusive<i32>, start_offset: ds::DateOffset, end_offset: ds::DateOffset)
    #      -> impl Iterator<Item = RangeInclusive<NaiveDate>>`: the list of its items
    name = "single_day_intervals"
    p = mk()
    p.i = find_impl_fns(tk, F_DF, None, None, [name])[name]
    line = p.eat("fn").line
    p.eat(name)
    p.eat("(")
    params = []
    for ty, ttoks in (("Month", ["Month"]), ("u8", ["u8"]), (("rng", "i32"), ["RangeInclusive", "<", "i32", ">"]),
                      ("DateOffset", ["ds", "::", "DateOffset"]), ("DateOffset", ["ds", "::", "DateOffset"])):
        pn = p.ident()
        p.eat(":")
        for x in ttoks:
            p.eat(x)
        if p.at(","):
            p.i += 1
        params.append((pn, ty))
    p.eat(")")
    for x in ("->", "impl", "Iterator", "<", "Item", "=", "RangeInclusive", "<", "NaiveDate"):
        p.eat(x)
    p.close_angle()
    p.close_angle()
    if len({n for n, _ in params}) != 5:
        fail(f"{F_DF}:{line}", "the parameter names have to differ")
    body = p.block()
    ret = ("list", ("rng", "date"))
    g = D3Gen(F_DF, name, name, params, ret, body, sigs, uses, fns)
    doc = (f"/-- `{name}({', '.join(n + ': ' + d3_show(t) for n, t in params)}) -> impl Iterator<Item = RangeInclusive<NaiveDate>>` ({F_DF}:{line}): "
           "the list of its items, all of them, in order (`filterMapMapM`, OH/Model/RustDated3.lean) -/")
    L += g.gen(doc) + [""]
    if g.externs:
        fail(F_DF, f"{name}: unexpected named parameters {sorted(g.externs)}")
    sigs[name] = ([t for _, t in params], ret, name, [])
    sigs[name + "#shape"] = [0, 0, 0, 0, 0]
    # 2. the `Date { .. }` arms
    for rname, rty, lean_name in D3_ARMS:
        at = find_impl_fns(tk, F_DF, "MonthdayRange", "DateFilter", [rname], header="impl DateFilter for ds :: MonthdayRange".split())[rname]
        # signature: `fn NAME<L>(&self, date: NaiveDate, _ctx: &Context<L>) -> R where ..`
        sig = [x.text for x in tk[at:at + 40]]
        k0 = sig.index("(")
        if sig[k0:k0 + 8] != ["(", "&", "self", ",", "date", ":", "NaiveDate", ","]:
            fail(f"{F_DF}:{tk[at].line}", f"`{rname}`: the parameters have to be `(&self, date: NaiveDate, _ctx: &Context<L>)`")
        names, bat, prefix = d3_find_arm(tk, at, F_DF)
        if rname == "next_change_hint" and prefix:
            fail(f"{F_DF}:{prefix[0].line}", f"`{rname}`: statements in front of `match self` are outside the translated subset (dated3 functions)")
        # `filter`: the statements in front of the `match` (`let in_year = ..; let in_month = ..;`) may not be mentioned by the arm
        # (they are not part of the definition; they are translated with the `Month` arm, `MonthdayRange.filter_month`)
        pre_names = {prefix[j + 1].text for j, x in enumerate(prefix) if x.text == "let"}
        p = mk()
        p.i = bat
        body = p.block()
        used = set()
        seq_idents(body, used)
        if pre_names & used:
            fail(f"{F_DF}:{tk[bat].line}", f"the `Date` arm mentions {sorted(pre_names & used)} of the statements in front of `match self`: outside the translated subset")
        params = [("date", "date"), (names[0], "Date"), (names[1], "DateOffset"), (names[2], "Date"), (names[3], "DateOffset")]
        g = D3Gen(F_DF, rname, lean_name, params, rty, body, sigs, uses, fns)
        doc = (f"/-- the arm `ds::MonthdayRange::Date {{ start: ({names[0]}, {names[1]}), end: ({names[2]}, {names[3]}) }}` of "
               f"`<ds::MonthdayRange as DateFilter>::{rname}(&self, date: NaiveDate, _ctx) -> {d3_show(rty)}` ({F_DF}:{tk[bat].line}); "
               "`ext_intervals_from_bounds` = the untranslated function of the file, by name; an adaptor chain "
               "handed to a callee is the list of its items (`filterMapMapM`, OH/Model/RustDated3.lean) -/")
        L += g.gen(doc) + [""]
    L += ["end Dated3", ""]
    return L

# ---- end of [dated3 extension] ------------------------------------------------------------------

# [week extension] seventh increment: `impl DateFilter for ds::WeekRange` `next_change_hint` of
# opening-hours/src/filter/date_filter.rs (DESIGN §8.9, notes/RS2LEAN7-week.md).  A small front end of its own: the base
# `Parser` in chrono mode with one more form (`while c { body }` as a statement) and a generator `WeekGen` over a closed table
# of types (u8 / u32 / i32 / bool, chrono's NaiveDate / IsoWeek / Weekday as in chrono mode, `RangeInclusive<u8>`,
# `RangeInclusive<WeekNum>`, references to these).  New constructs:
#  * `while c { x = e; .. }` over `let mut` locals: a definition `<fn>.loop1 (fuel : Nat) <state> <variables read>` (the shape of
#    the schedule extension: `.ret v s` = `return v` / a failing `?` inside the body, `.next s` = the condition failed); the
#    function gets the parameter `fuel`; the theorems prove a fuel that suffices;
#  * `return e` / `?` NESTED inside the block that computes a value (`let x = u32::from({ if c { a } else { return None } });`):
#    the rest of the function after the `let` is a local function `cont<n>` (a join point) every value leaf calls; the `return`
#    leaves end the function;
#  * `**self.range.start()` / `self.range.start() > self.range.end()` on `RangeInclusive<WeekNum>`: the accessor, then the
#    reference, then `impl Deref for WeekNum` (`.v0`; shape checked) / `#[derive(PartialOrd, Ord)]` on the one-field newtype
#    (the order of the field; the derive is checked on the declaration); `u8 OP &u8` (std's impls for references);
#  * `u32::from(e)` on a `u8`: value-preserving.
# The chrono calls are the entries of CHRONO_METHODS / CHRONO_CALLS (trusted as the calendar model is); `wrapping_contains` is
# the translated generic function.  Everything else is an error naming file:line.
WEEK_HDR = "impl DateFilter for ds :: WeekRange"
WEEK_SIG = "fn next_change_hint < L > ( & self , NaiveDate , & Context < L > ) -> Option < NaiveDate > where Localize ,"  # as `d3_sig_text` prints it (parameter names and `L :` removed)
WEEK_DECLS = [
    (True, "# [ derive ( Copy , Clone , Debug , Hash , PartialEq , Eq , PartialOrd , Ord ) ] pub struct WeekNum ( pub u8 ) ;",
     "`#[derive(.., PartialOrd, Ord)] pub struct WeekNum(pub u8);`"),
    (False, "impl Deref for WeekNum { type Target = u8 ; fn deref ( & self ) -> & Self :: Target { & self . 0 } }", "`impl Deref for WeekNum` (`&self.0`)"),
    (False, "pub struct WeekRange { pub range : RangeInclusive < WeekNum > , pub step : u8 , }", "`struct WeekRange { range: RangeInclusive<WeekNum>, step: u8 }`"),
    (False, "pub use chrono :: Weekday ;", "`pub use chrono::Weekday;` (`ds::Weekday` is read as chrono's)"),
]
WEEK_INTS = ("u8", "u32", "i32")
WEEK_CHRONO_TY = {"NaiveDate": "date", "IsoWeek": "isoweek", "Weekday": "wd", "u32": "u32", "i32": "i32", "Option < NaiveDate >": ("opt", "date")}
WEEK_LTY = {"u8": "Int", "u32": "Int", "i32": "Int", "date": "Int", "isoweek": "Int", "wd": "Int", "bool": "Bool"}


def week_lty(t, top=True):
    if isinstance(t, tuple):
        if t[0] == "ref":
            return week_lty(t[1], top)
        s_ = {"opt": "Option", "rng": "RangeInclusive"}[t[0]] + " " + week_lty(t[1], False)
        return s_ if top else f"({s_})"
    return "WeekNum" if t == "weeknum" else WEEK_LTY[t]


class WeekParser(Parser):
    def primary(self, nostruct):
        if self.at("while"):
            # `while c { .. }`: as a statement-level `if` node so that `Parser.block` accepts it without `;`
            line = self.eat("while").line
            if self.at("let"):
                fail(self.where(), "`while let` is outside the translated subset (week functions)")
            c = self.expr(nostruct=True)
            body = self.block()
            return Node("if", line, c=Node("weekwhile", line, c=c, body=body), a=None, b=None)
        return Parser.primary(self, nostruct)


class WeekGen:
    def __init__(self, rel, fname, lean_fn, uses, datelike):
        self.rel, self.fname, self.lean_fn, self.uses, self.datelike = rel, fname, lean_fn, uses, datelike
        self.tmp, self.conts, self.loops = 0, 0, []
        self.ret = ("opt", "date")

    def w(self, n):
        return f"{self.rel}:{n.line}"

    def fresh(self):
        self.tmp += 1
        return f"tmp{self.tmp}"

    def site(self, n):
        return f'"WeekRange::{self.fname}:{n.line}"'

    @staticmethod
    def strip(t):
        while isinstance(t, tuple) and t[0] == "ref":
            t = t[1]
        return t

    # ---- expressions: (lines in front, atom, type); the lines are `bnd (..) fun tmp =>` / `match .. | some tmp =>` prefixes ----
    def ex(self, n, env, want=None):
        k = n.kind
        if k == "paren":
            return self.ex(n.e, env, want)
        if k == "var":
            if n.name not in env:
                fail(self.w(n), f"unknown variable `{n.name}` (week functions)")
            return [], env[n.name][0], env[n.name][1]
        if k == "lit":
            if n.suffix is not None and n.suffix != want:
                fail(self.w(n), f"literal suffix `{n.suffix}` does not match the expected type")
            t = n.suffix or want
            if t not in WEEK_INTS:
                fail(self.w(n), "the type of this literal is not determined by its context (week functions)")
            lo, hi = INT_TYPES[t]
            if not isinstance(n.value, int) or not lo <= n.value <= hi:
                fail(self.w(n), f"literal out of range for {t}")
            return [], str(n.value), t
        if k == "field":
            if n.e.kind != "self" or n.name not in ("range", "step"):
                fail(self.w(n), "only `self.range` / `self.step` are translated field accesses (week functions)")
            return [], f"self.{n.name}", ("rng", "weeknum") if n.name == "range" else "u8"
        if k == "method":
            if n.name in ("start", "end") and not n.args:
                pre, a, t = self.ex(n.e, env)
                t = self.strip(t)
                if not (isinstance(t, tuple) and t[0] == "rng"):
                    fail(self.w(n), f"`.{n.name}()` on something that is not a `RangeInclusive` (week functions)")
                return pre, f"{a}.{'start' if n.name == 'start' else '«end»'}", ("ref", t[1])
            if n.name == "wrapping_contains" and len(n.args) == 1:
                if ("crate::utils::range", "WrappingRange") not in self.uses:
                    fail(self.w(n), "`wrapping_contains` is read as `crate::utils::range::WrappingRange`'s, but the file does not import that trait")
                pre, a, t = self.ex(n.e, env)
                t = self.strip(t)
                if not (isinstance(t, tuple) and t[0] == "rng" and t[1] in WEEK_INTS):
                    fail(self.w(n), "`wrapping_contains` on something that is not a range of integers (week functions)")
                if n.args[0].kind != "ref":
                    fail(self.w(n), "the argument of `wrapping_contains` has to be a reference `&x`")
                pre2, b, t2 = self.ex(n.args[0].e, env, t[1])
                if self.strip(t2) != t[1]:
                    fail(self.w(n), f"`wrapping_contains`: the element has type {t2}, the range is over {t[1]}")
                v = self.fresh()
                return pre + pre2 + [f"bnd (WrappingRange.wrapping_contains {a} {b}) fun {v} =>"], v, "bool"
            pre, a, t = self.ex(n.e, env)
            t = self.strip(t)
            rty = {"date": "NaiveDate", "isoweek": "IsoWeek", "wd": "Weekday"}.get(t)
            ent = CHRONO_METHODS.get((rty, n.name))
            if ent is None or ent[0] != [] or n.args or ent[1] not in WEEK_CHRONO_TY:
                fail(self.w(n), f"method `.{n.name}(..)` on {t} is outside the translated subset (week functions)")
            if ent[3] and not self.datelike:
                fail(self.w(n), f"`.{n.name}()` is read as `chrono::Datelike`'s, but the file has no `use chrono::prelude::Datelike;`")
            return pre, f"({ent[2]} {a})", WEEK_CHRONO_TY[ent[1]]
        if k == "deref":
            pre, a, t = self.ex(n.e, env)
            if isinstance(t, tuple) and t[0] == "ref":
                return pre, a, t[1]
            if t == "weeknum":
                return pre, f"{a}.v0", "u8"  # `impl Deref for WeekNum` (checked by `week_section`)
            fail(self.w(n), f"`*` on a value of type {t} is outside the translated subset (week functions)")
        if k == "cast":
            pre, a, t = self.ex(n.e, env)
            t = self.strip(t)
            to = n.to[1] if isinstance(n.to, tuple) and n.to[0] == "int" else None
            if t not in WEEK_INTS or to not in WEEK_INTS:
                fail(self.w(n), "only casts between u8 / u32 / i32 are translated (week functions)")
            return pre, f"(wrap .{to} {a})", to
        if k == "chronoconst":
            ty, lean = CHRONO_CONSTS[n.path]
            if ty != "Weekday":
                fail(self.w(n), f"`{n.path}` is outside the translated subset (week functions)")
            return [], lean, "wd"
        if k == "call":
            path = "::".join(n.path)
            if path == "u32::from" and len(n.args) == 1:
                pre, a, t = self.ex(n.args[0], env)
                if self.strip(t) != "u8":
                    fail(self.w(n), f"`u32::from` of a value of type {t} is outside the translated subset")
                return pre, a, "u32"
            if path in CHRONO_CALLS:
                ptys, rty, lean = CHRONO_CALLS[path]
                if len(ptys) != len(n.args) or rty not in WEEK_CHRONO_TY or any(p not in WEEK_CHRONO_TY for p in ptys):
                    fail(self.w(n), f"`{path}` is outside the translated subset (week functions)")
                if ("chrono", n.path[0]) not in self.uses:
                    fail(self.w(n), f"`{n.path[0]}` is read as chrono's, but the file does not import it from there")
                pre, atoms = [], []
                for a_, p in zip(n.args, ptys):
                    pp, a, t = self.ex(a_, env, WEEK_CHRONO_TY[p])
                    if self.strip(t) != WEEK_CHRONO_TY[p]:
                        fail(self.w(a_), f"argument of `{path}`: expected {p}, found {t}")
                    pre += pp
                    atoms.append(a)
                return pre, f"({lean} {' '.join(atoms)})", WEEK_CHRONO_TY[rty]
            fail(self.w(n), f"call of `{path}` is outside the translated subset (week functions)")
        if k == "bin":
            op = n.op
            lw = rw = None
            if n.l.kind == "lit" and n.r.kind == "lit":
                fail(self.w(n), "an operation on two literals is outside the translated subset (week functions)")
            if n.l.kind == "lit":
                pr, b, tr = self.ex(n.r, env)
                pl, a, tl = self.ex(n.l, env, self.strip(tr))
            else:
                pl, a, tl = self.ex(n.l, env)
                pr, b, tr = self.ex(n.r, env, self.strip(tl))
            if op in ("<", "<=", ">", ">=", "==", "!="):
                lop = {"<": "<", "<=": "≤", ">": ">", ">=": "≥", "==": "=", "!=": "≠"}[op]
                if tl != tr and not (n.l.kind == "lit" or n.r.kind == "lit"):
                    fail(self.w(n), f"comparison of {tl} with {tr} is outside the translated subset (week functions)")
                t = self.strip(tl)
                if t == "weeknum":
                    # `#[derive(PartialOrd, Ord)]` on the one-field newtype (checked by `week_section`): the order of the field
                    a, b, t = f"{a}.v0", f"{b}.v0", "u8"
                if t not in WEEK_INTS + ("date",):
                    fail(self.w(n), f"comparison of values of type {t} is outside the translated subset (week functions)")
                return pl + pr, f"(decide ({a} {lop} {b}))", "bool"
            if op in ("+", "-", "%"):
                tl, tr = self.strip(tl), self.strip(tr)  # `u8 OP &u8`: std implements the operators for references
                if tl != tr or tl not in WEEK_INTS:
                    fail(self.w(n), f"`{op}` on {tl} and {tr} is outside the translated subset (week functions)")
                if op == "%" and n.r.kind == "lit" and n.r.value != 0:
                    return pl + pr, f"(Int.tmod {a} {b})", tl  # `%` by a non-zero literal cannot fail
                v = self.fresh()
                f = {"+": "add", "-": "sub", "%": "rem"}[op]
                return pl + pr + [f"bnd ({f} .{tl} {self.site(n)} {a} {b}) fun {v} =>"], v, tl
            fail(self.w(n), f"operator `{op}` is outside the translated subset (week functions)")
        if k == "range" and n.incl:
            pl, a, tl = self.ex(n.l, env)
            pr, b, tr = self.ex(n.r, env)
            if tl != tr or tl not in WEEK_INTS:
                fail(self.w(n), "only `a..=b` over one integer type is translated (week functions)")
            return pl + pr, f"(RangeInclusive.mk {a} {b})", ("rng", tl)
        fail(self.w(n), f"this expression ({k}) is outside the translated subset (week functions)")

    # ---- a value that may `return`: every value leaf goes to `k(atom, type)` (lines), every `return e` ends the function ----
    def val(self, n, env, want, ret_k, k):
        kind = n.kind
        if kind == "blockexpr":
            return self.val(n.b, env, want, ret_k, k)
        if kind == "block":
            if n.stmts:
                fail(self.w(n), "statements inside a value block are outside the translated subset (week functions)")
            return self.val(n.tail, env, want, ret_k, k)
        if kind == "return":
            return self.val(n.e, env, self.ret, ret_k, ret_k)
        if kind == "none":
            return k("none", ("opt", None))
        if kind == "some":
            pre, a, t = self.ex(n.e, env)
            return pre + k(f"(some {a})", ("opt", self.strip(t)))
        if kind == "if":
            if n.a is None or n.b is None:
                fail(self.w(n), "an `if` without `else` as a value is outside the translated subset (week functions)")
            pre, c, t = self.ex(n.c, env)
            if t != "bool":
                fail(self.w(n), "the condition is not a `bool`")
            return pre + [f"if {c} then"] + ["  " + x for x in self.val(n.a, env, want, ret_k, k)] + ["else"] + ["  " + x for x in self.val(n.b, env, want, ret_k, k)]
        if kind == "call" and n.path == ["u32", "from"] and len(n.args) == 1 and n.args[0].kind == "blockexpr":
            def k2(a, t):
                if self.strip(t) != "u8":
                    fail(self.w(n), f"`u32::from` of a value of type {t} is outside the translated subset")
                return k(a, "u32")
            return self.val(n.args[0], env, "u8", ret_k, k2)
        pre, a, t = self.ex(n, env, want if isinstance(want, str) else None)
        return pre + k(a, t)

    def ret_k(self, a, t):
        if not (isinstance(t, tuple) and t[0] == "opt" and t[1] in (None, "date")):
            fail(self.rel, f"{self.fname}: a returned value has type {t}, the function returns Option<NaiveDate>")
        return [f".ok {a}"]

    def has_return(self, n):
        if isinstance(n, Node):
            return n.kind in ("return", "try") or any(self.has_return(v) for kk, v in n.__dict__.items() if kk != "ty")
        if isinstance(n, list):
            return any(self.has_return(x) for x in n)
        return False

    # ---- statements of the function body (continuation: the statements that follow) ----
    def stmts(self, ss, tail, env):
        if not ss:
            return self.val(tail, env, self.ret, self.ret_k, self.ret_k)
        s, rest = ss[0], ss[1:]
        if s.kind == "let":
            if s.ann is not None:
                fail(self.w(s), "a type annotation on `let` is outside the translated subset (week functions)")
            name = lname(s.name)
            if s.e.kind == "try":
                pre, a, t = self.ex(s.e.e, env)
                if t != ("opt", "date"):
                    fail(self.w(s), "`?` on something that is not an `Option<NaiveDate>` (week functions)")
                env2 = dict(env)
                env2[s.name] = (name, "date", s.mut)
                return pre + [f"match {a} with", "| none => .ok none", f"| some {name} =>"] + self.stmts(rest, tail, env2)
            if self.has_return(s.e):
                # the rest of the function is a join point `cont<n>`; the value leaves call it, `return` leaves end the function
                if s.mut:
                    fail(self.w(s), "`let mut` with a value that may `return` is outside the translated subset")
                self.conts += 1
                cn = f"cont{self.conts}"
                tybox = []

                def k(a, t):
                    t = self.strip(t)
                    if t not in WEEK_INTS:
                        fail(self.w(s), f"a value of type {t} for `{s.name}` is outside the translated subset")
                    tybox.append(t)
                    return [f"{cn} {a}"]
                body = self.val(s.e, env, None, self.ret_k, k)
                if len(set(tybox)) != 1:
                    fail(self.w(s), f"the branches that compute `{s.name}` have different types")
                env2 = dict(env)
                env2[s.name] = (name, tybox[0], False)
                return ([f"let {cn} : {week_lty(tybox[0])} → R (Option Int) := (fun {name} =>"] + ["  " + x for x in self.stmts(rest, tail, env2)]
                        + ["  )"] + body)
            pre, a, t = self.ex(s.e, env)
            if isinstance(t, tuple) and t[0] == "ref":
                fail(self.w(s), "a `let` that binds a reference is outside the translated subset (week functions)")
            env2 = dict(env)
            env2[s.name] = (name, t, s.mut)
            return pre + [f"let {name} := {a}"] + self.stmts(rest, tail, env2)
        if s.kind == "exprstmt" and s.e.kind == "if" and getattr(s.e.c, "kind", None) == "weekwhile":
            return self.while_(s.e.c, rest, tail, env)
        if s.kind == "exprstmt" and s.e.kind == "if":
            # `if c { return e; }`: the early return
            i = s.e
            if not (i.b is not None and i.b.kind == "block" and not i.b.stmts and i.b.tail.kind == "unit" and i.a.kind == "block" and not i.a.stmts and i.a.tail.kind == "return"):
                fail(self.w(s), "only `if c { return e; }` is a translated statement-level `if` (week functions)")
            pre, c, t = self.ex(i.c, env)
            if t != "bool":
                fail(self.w(s), "the condition is not a `bool`")
            return pre + [f"if {c} then"] + ["  " + x for x in self.val(i.a.tail, env, self.ret, self.ret_k, self.ret_k)] + ["else"] + self.stmts(rest, tail, env)
        fail(self.w(s), f"this statement ({s.kind}) is outside the translated subset (week functions)")

    def reads(self, n, acc):
        if isinstance(n, Node):
            if n.kind == "var":
                acc.append(n.name)
            if n.kind == "self":
                acc.append("self")
            for kk, v in n.__dict__.items():
                if kk != "ty":
                    self.reads(v, acc)
        elif isinstance(n, list):
            for x in n:
                self.reads(x, acc)

    def while_(self, wn, rest, tail, env):
        """`while c { x = e; }` with ONE state variable (a `let mut` local); `?` inside the body ends the function with `None`"""
        if self.loops:
            fail(self.w(wn), "a second loop is outside the translated subset (week functions)")
        body = wn.body
        if body.tail.kind != "unit" or len(body.stmts) != 1 or body.stmts[0].kind != "assign" or body.stmts[0].op is not None or body.stmts[0].place.kind != "var":
            fail(self.w(wn), "only `while c { x = e; }` is a translated loop (week functions)")
        a_ = body.stmts[0]
        sv = a_.place.name
        if sv not in env or not env[sv][2]:
            fail(self.w(a_), f"`{sv}` is not a `let mut` local")
        sty = env[sv][1]
        acc = []
        self.reads(wn, acc)
        others = []
        for x in acc:
            if x != sv and x not in others:
                if x == "self" or x not in env:
                    fail(self.w(wn), f"the loop reads `{x}`, which is outside the translated subset (week functions)")
                if env[x][2]:
                    fail(self.w(wn), f"the loop reads the mutable variable `{x}` without writing it: outside the translated subset")
                others.append(x)
        lenv = {sv: (lname(sv), sty, True)}
        for x in others:
            lenv[x] = (lname(x), env[x][1], False)
        pre, c, t = self.ex(wn.c, lenv)
        if t != "bool":
            fail(self.w(wn), "the loop condition is not a `bool`")
        lname_ = f"{self.lean_fn}.loop1"
        args = " ".join([lname(sv)] + [lname(x) for x in others])
        flow = f"Flow (Option Int) {week_lty(sty)}"
        if a_.e.kind == "try":
            p2, e, t2 = self.ex(a_.e.e, lenv)
            if t2 != ("opt", sty):
                fail(self.w(a_), f"`?` on a value of type {t2}, the variable has type {sty}")
            v = self.fresh()
            step = p2 + [f"match {e} with", f"| none => .ok (.ret none {lname(sv)})", f"| some {v} =>", f"let {lname(sv)} := {v}"]
        else:
            p2, e, t2 = self.ex(a_.e, lenv, sty if isinstance(sty, str) else None)
            if self.strip(t2) != sty:
                fail(self.w(a_), f"assignment of a value of type {t2} to a variable of type {sty}")
            step = p2 + [f"let {lname(sv)} := {e}"]
        L = [f"/-- the loop `while ..` of `WeekRange::{self.fname}` ({self.rel}:{wn.line}); `fuel` = the number of iterations allowed; `.ret v s` = `return v` "
             f"(a failing `?`) inside the body, `.next s` = the condition failed; `s` = {sv} -/",
             f"def {lname_} (fuel : Nat) " + " ".join(f"({lname(x)} : {week_lty(lenv[x][1])})" for x in [sv] + others) + f" : R ({flow}) :=",
             "  match fuel with", "  | 0 => .error (.panic loopFuelExhausted)", "  | fuel + 1 =>"]
        L += ["    " + x for x in pre + [f"if {c} then"] + ["  " + x for x in step + [f"{lname_} fuel {args}"]] + ["else", f"  .ok (.next {lname(sv)})"]]
        self.loops.append(L)
        v, r = self.fresh(), self.fresh()
        return ([f"bnd ({lname_} fuel {args}) fun {v} =>", f"match {v} with", f"| .ret {r} {lname(sv)} =>", f"  .ok {r}", f"| .next {lname(sv)} =>"]
                + self.stmts(rest, tail, env))


def week_find(tk, words):
    texts = [x.text for x in tk]
    return any(texts[j:j + len(words)] == words for j in range(len(texts) - len(words) + 1))


def week_section(toks, raw):
    """the Lean text (lines) of the week targets"""
    for rel in (F_DF, F_DAY, F_RANGE):
        if rel in EXCLUDED_FILES:
            fail(rel, "the main pipeline left this file out; the week functions use its types and `wrapping_contains`")
    tk, dtk = toks(F_DF), toks(F_DAY)
    for is_raw, text, what in WEEK_DECLS:
        if not week_find(raw(F_DAY) if is_raw else dtk, text.split()):
            fail(F_DAY, f"{what} not found (tables of the week extension)")
    uses = file_uses(tk)
    if ALIASES[F_DF]["ds"] != "opening_hours_syntax::rules::day" or not has_use_as(tk, ALIASES[F_DF]["ds"], "ds"):
        fail(F_DF, "`ds::` is read as `opening_hours_syntax::rules::day::`, but the file does not import it under that name")
    datelike = ("chrono::prelude", "Datelike") in uses
    name = "next_change_hint"
    at = find_impl_fns(tk, F_DF, "WeekRange", None, [name], WEEK_HDR.split())[name]
    got = d3_sig_text(tk, at)
    if got.rstrip() != WEEK_SIG:
        fail(f"{F_DF}:{tk[at].line}", f"the signature of `WeekRange::{name}` changed: expected `{WEEK_SIG}`, found `{got}` (tables of the week extension)")
    p = WeekParser(tk, F_DF, {"WeekRange"}, uses=std_uses(tk), enums=set(), aliases={"ds"}, modelled=True, penums=set())
    p.i = at
    node = p.fn()
    (dname, _), (cname, _) = node.params
    g = WeekGen(F_DF, name, name, uses, datelike)
    env = {dname: (lname(dname), "date", False)}
    body = g.stmts(node.body.stmts, node.body.tail, env)
    if not g.loops:
        fail(f"{F_DF}:{node.line}", f"`WeekRange::{name}` has no loop any more: the parameter `fuel` of the tables of the week extension is stale")
    L = ["/-! ### [week extension] `impl DateFilter for ds::WeekRange` `next_change_hint` (opening-hours/src/filter/date_filter.rs), chrono mode -/", "",
         "namespace WeekRange", ""]
    for lp in g.loops:
        L += lp + [""]
    L += [f"/-- `<L> WeekRange::{name}(&self, {dname}: NaiveDate, {cname}: &Context<L>) -> Option<NaiveDate>` ({F_DF}:{node.line}); `fuel` = the number of "
          f"iterations the loop is allowed (OH/Props/ArithC01Week.lean: 2 suffice); the context is not read -/",
          f"def {name} (fuel : Nat) (self : WeekRange) ({lname(dname)} : Int) : R (Option Int) :="]
    L += ["  " + x for x in body]
    L += ["", "end WeekRange", ""]
    return L

# ---- [week extension], second part: `count_days_in_month` of opening-hours/src/utils/dates.rs (chrono mode) ----
# `let Some(x) = e else { return v; };`, `OPT.expect("..")` (the `none => .error (.panic "..")` arm), `a - b` on dates (the
# number of days), `.num_days()`, `.try_into().expect("..")` towards the function's result type (the range test), and two
# chrono calls translated ONLY in the shape the code has: `d.checked_add_months(Months::new(1))` and `d.with_day(1)`
# (`Chrono.checked_add_months_one` / `Chrono.with_day_one` of OH/Model/RustChrono.lean).
WEEK_DATES_SIG = "fn count_days_in_month ( NaiveDate ) -> u8"


class WeekDatesGen(WeekGen):
    def __init__(self, rel, fname, uses):
        WeekGen.__init__(self, rel, fname, fname, uses, ("chrono", "Datelike") in uses)
        self.ret = "u8"

    def site(self, n):
        return f'"{self.fname}:{n.line}"'

    def ret_k(self, a, t):
        if self.strip(t) != "u8":
            fail(self.rel, f"{self.fname}: a returned value has type {t}, the function returns u8")
        return [f".ok {a}"]

    def panic(self, n):
        if len(n.args) != 1 or n.args[0].kind != "str" or '"' in n.args[0].value or "\\" in n.args[0].value:
            fail(self.w(n), "`.expect(..)` takes one plain string literal (week functions)")
        return f'.error (.panic "{n.args[0].value}")'

    def ex(self, n, env, want=None):
        k = n.kind
        if k == "method" and n.name == "expect":
            if n.e.kind == "method" and n.e.name == "try_into" and not n.e.args:
                pre, a, t = self.ex(n.e.e, env)
                if t != "i64" or want not in WEEK_INTS:
                    fail(self.w(n), "`.try_into().expect(..)` is translated from `i64` towards a known integer type only (week functions)")
                v = self.fresh()
                return pre + [f"match tryInto .{want} {a} with", f"| none => {self.panic(n)}", f"| some {v} =>"], v, want
            pre, a, t = self.ex(n.e, env)
            if not (isinstance(t, tuple) and t[0] == "opt"):
                fail(self.w(n), f"`.expect(..)` on a value of type {t} is outside the translated subset (week functions)")
            v = self.fresh()
            return pre + [f"match {a} with", f"| none => {self.panic(n)}", f"| some {v} =>"], v, t[1]
        if k == "method" and n.name in ("checked_add_months", "with_day"):
            pre, a, t = self.ex(n.e, env)
            if t != "date" or len(n.args) != 1:
                fail(self.w(n), f"`.{n.name}(..)` on a value of type {t} is outside the translated subset (week functions)")
            if ("chrono", "NaiveDate") not in self.uses:
                fail(self.w(n), "`NaiveDate` is read as chrono's, but the file does not import it from there")
            arg = n.args[0]
            if n.name == "with_day":
                if not self.datelike:
                    fail(self.w(n), "`.with_day(..)` is read as `chrono::Datelike`'s, but the file does not import that trait")
                if arg.kind != "lit" or arg.value != 1 or arg.suffix is not None:
                    fail(self.w(n), "only `.with_day(1)` is translated (week functions)")
                return pre, f"(Chrono.with_day_one {a})", ("opt", "date")
            if ("chrono", "Months") not in self.uses:
                fail(self.w(n), "`Months` is read as chrono's, but the file does not import it from there")
            if not (arg.kind == "call" and arg.path == ["Months", "new"] and len(arg.args) == 1 and arg.args[0].kind == "lit"
                    and arg.args[0].value == 1 and arg.args[0].suffix is None):
                fail(self.w(n), "only `.checked_add_months(Months::new(1))` is translated (week functions)")
            return pre, f"(Chrono.checked_add_months_one {a})", ("opt", "date")
        if k == "method" and n.name == "num_days" and not n.args:
            pre, a, t = self.ex(n.e, env)
            if t != "delta":
                fail(self.w(n), f"`.num_days()` on a value of type {t} is outside the translated subset (week functions)")
            return pre, a, "i64"
        if k == "bin" and n.op == "-":
            pl, a, tl = self.ex(n.l, env)
            if tl == "date":
                pr, b, tr = self.ex(n.r, env)
                if tr != "date":
                    fail(self.w(n), f"`NaiveDate - {tr}` is outside the translated subset (week functions)")
                return pl + pr, f"({a} - {b})", "delta"  # `NaiveDate - NaiveDate`: the signed duration, kept as its number of days
        return WeekGen.ex(self, n, env, want)

    def stmts(self, ss, tail, env):
        if ss and ss[0].kind == "letsome":
            s = ss[0]
            if s.is_res or s.pann is not None:
                fail(self.w(s), "only `let Some(x) = e else { return v; };` is translated (week functions)")
            pre, a, t = self.ex(s.e, env)
            if not (isinstance(t, tuple) and t[0] == "opt"):
                fail(self.w(s), f"`let Some(..) =` on a value of type {t}")
            env2 = dict(env)
            env2[s.name] = (lname(s.name), t[1], False)
            orelse = self.val(s.orelse, env, self.ret, self.ret_k, self.ret_k)
            return pre + [f"match {a} with", "| none =>"] + ["  " + x for x in orelse] + [f"| some {lname(s.name)} =>"] + self.stmts(ss[1:], tail, env2)
        if not ss:
            return self.val(tail, env, self.ret, self.ret_k, self.ret_k)
        return WeekGen.stmts(self, ss, tail, env)


def week_dates_section(toks):
    """the Lean text (lines) of `count_days_in_month`"""
    if F_DATES in EXCLUDED_FILES:
        fail(F_DATES, "the main pipeline left this file out")
    tk = toks(F_DATES)
    uses = file_uses(tk)
    name = "count_days_in_month"
    at = find_impl_fns(tk, F_DATES, None, None, [name])[name]
    got = d3_sig_text(tk, at)
    if got.rstrip() != WEEK_DATES_SIG:
        fail(f"{F_DATES}:{tk[at].line}", f"the signature of `{name}` changed: expected `{WEEK_DATES_SIG}`, found `{got}` (tables of the week extension)")
    p = WeekParser(tk, F_DATES, set(), uses=std_uses(tk), enums=set(), aliases=set(), modelled=True, penums=set())
    p.i = at
    node = p.fn()
    ((dname, _),) = node.params
    g = WeekDatesGen(F_DATES, name, uses)
    body = g.stmts(node.body.stmts, node.body.tail, {dname: (lname(dname), "date", False)})
    if g.loops or g.conts:
        fail(f"{F_DATES}:{node.line}", f"`{name}`: a loop / a nested `return` here is outside the translated subset")
    return ["/-! ### [week extension] `count_days_in_month` (opening-hours/src/utils/dates.rs), chrono mode -/", "", "namespace Dates", "",
            f"/-- `{name}({dname}: NaiveDate) -> u8` ({F_DATES}:{node.line}) -/",
            f"def {name} ({lname(dname)} : Int) : R Int :="] + ["  " + x for x in body] + ["", "end Dates", ""]
# ---- end of [week extension] ---------------------------------------------------------------------

# [iter extension] seventh increment (notes/RS2LEAN7-iter.md): the point queries of opening-hours/src/opening_hours.rs on
# top of the naive iterator: `OpeningHours::state`, `is_open`, `is_closed`, `is_unknown` (`next_change` is the tz-pipe
# section's).  Front end = `TzParser` / `TzPipeGen` of the tz extension plus: the types `RuleKind` / `bool`; `RuleKind::X`
# as a value (a named parameter `RuleKind_X : Kind`, the variant has to exist in the enum); a plain `if c { .. return v; }`
# STATEMENT (no `else`, the block has to end in `return`); `NaiveDateTime + Duration::minutes/seconds(LIT)` = chrono's
# `checked_add_signed(rhs).expect("`NaiveDateTime + TimeDelta` overflowed")`; `self.iter_range_naive(a, b).next()` on the
# FRESH iterator = the named, effectful parameter `ext_iter_range_naive_first` (the first item the naive iterator yields:
# nothing behind it is evaluated, as in Rust); `opt.map(|x| PURE)`, `opt.unwrap_or(PURE)`; `self.state(t)` = a CALL of the
# translated `state` (linked).  Anything else: an error naming file:line.
ITER_TARGETS = ["state", "is_open", "is_closed", "is_unknown"]
ITER_KIND_ENUM = ("opening-hours-syntax/src/rules/mod.rs", "RuleKind")
TZ_EXT.update({
    "ext_iter_range_naive_first": (f"Int → Int → R (Option ({TZ_DTR_N}))",
                                   "`self.iter_range_naive(from, to).next()` on the fresh iterator (not translated here): the FIRST item the naive iterator yields, effectful (what its `new` / first `next` panic on propagates; later items are not evaluated)"),
})


class IterParser(TzParser):
    def type_(self):
        tk = self.peek()
        if tk.text in ("RuleKind", "bool") and self.peek(1).text != "::":
            self.i += 1
            return ("kind",) if tk.text == "RuleKind" else ("bool",)
        return TzParser.type_(self)

    def stmt(self, in_block):
        tk = self.peek()
        if in_block and self.at("if") and self.peek(1).text != "let":
            save = self.i
            self.i += 1
            c = self.expr()
            body = self.block()
            if not self.at("else"):
                return Node("ifs", tk.line, c=c, body=body)
            self.i = save  # `if .. else ..`: a value (the existing front end)
        return TzParser.stmt(self, in_block)

    def cmp_(self):
        a = self.add_()
        tk = self.peek()
        if tk.kind == "op" and tk.text in ("==", "!=", "<", "<=", ">", ">="):
            self.i += 1
            b = self.add_()
            t3 = self.peek()
            if t3.kind == "op" and t3.text in ("==", "!=", "<", "<=", ">", ">="):
                fail(self.where(t3), f"`{t3.text}` after a comparison is outside the translated subset (iter functions)")
            return Node("cmp", tk.line, op=tk.text, a=a, b=b)
        if tk.kind == "op" and tk.text in ("+", "-", "*", "/", "%", "||", "..=", "[", "|", "^", "<<", ">>", "!"):
            fail(self.where(tk), f"`{tk.text}` is outside the translated subset (iter functions)")
        if tk.kind == "id" and tk.text == "as":
            fail(self.where(tk), "`as` is outside the translated subset (iter functions)")
        return a

    def add_(self):
        a = self.post()
        tk = self.peek()
        if tk.kind == "op" and tk.text == "+":
            self.i += 1
            return Node("add", tk.line, a=a, b=self.post())
        return a

    def prim(self):
        tk = self.peek()
        if tk.kind == "id" and tk.text == "RuleKind" and self.peek(1).text == "::" and self.peek(2).kind == "id" and self.peek(3).text != "(":
            self.i += 3
            return Node("kindconst", tk.line, name=self.peek(-1).text)
        return TzParser.prim(self)


class IterGen(TzPipeGen):
    def __init__(self, f, ns, node, variants, uses, fnsigs):
        TzPipeGen.__init__(self, f, ns, node, None)
        self.variants, self.uses, self.fnsigs = variants, uses, fnsigs

    def cg(self, e, env, k):
        kd = e.kind
        if kd == "kindconst":
            if e.name not in self.variants:
                fail(self.w(e), f"`RuleKind::{e.name}` is not a variant of `enum RuleKind` ({ITER_KIND_ENUM[0]})")
            name = f"RuleKind_{e.name}"
            TZ_EXT.setdefault(name, ("Kind", f"the constant `RuleKind::{e.name}`"))
            return k(self.ext(name), ("kind",))
        if kd == "add":
            def ka(a, ta):
                def kb(b, tb):
                    if (ta, tb) != (("ndt",), ("delta",)):
                        fail(self.w(e), f"`+` is translated as `NaiveDateTime + TimeDelta` only, found {tz_lty(ta)} + {tz_lty(tb)} (iter functions)")
                    v = self.tmp()
                    return [f"match TzChrono.ndt_checked_add_signed {a} {b} with", "| none => .error (.panic \"`NaiveDateTime + TimeDelta` overflowed\")",
                            f"| some {v} =>"] + k(v, ("ndt",))
                return self.cg(e.b, env, kb)
            return self.cg(e.a, env, ka)
        if kd == "pathcall" and e.ty == "Duration":
            if ("chrono", "Duration") not in self.uses:
                fail(self.w(e), "`Duration` is read as `chrono::Duration` (= `TimeDelta`): `use chrono::Duration;` not found")
            if e.name in ("seconds", "minutes") and len(e.args) == 1 and e.args[0].kind == "int" and e.args[0].v < 10 ** 12:
                return k(f"(TzChrono.{e.name} {e.args[0].v})", ("delta",))
            fail(self.w(e), f"the call `Duration::{e.name}(..)` is outside the translated subset (iter functions: `Duration::seconds/minutes(LITERAL)`)")
        if kd == "method" and e.name == "next" and not e.args and e.e.kind == "method" and e.e.e.kind == "self" and e.e.name == "iter_range_naive" \
                and len(e.e.args) == 2:
            def kargs(av):
                if [t for _, t in av] != [("ndt",), ("ndt",)]:
                    fail(self.w(e), "`self.iter_range_naive(from, to)`: argument types")
                v = self.tmp()
                return [f"bnd ({self.ext('ext_iter_range_naive_first')} {av[0][0]} {av[1][0]}) fun {v} =>"] + k(v, ("opt", ("dtr", ("ndt",))))
            return self.cg_args(e.e.args, env, [], kargs)
        if kd == "method" and e.name == "map" and len(e.args) == 1 and e.args[0].kind == "closure":
            cl = e.args[0]

            def kr(r, tr):
                if tr[0] != "opt" or len(cl.params) != 1 or cl.body.stmts or cl.body.tail is None:
                    fail(self.w(e), "`.map(|x| EXPR)` is translated on an `Option`, with a one-parameter, single-expression closure (iter functions)")
                if cl.params[0] in env:
                    fail(self.w(cl), f"the closure parameter `{cl.params[0]}` shadows a variable in scope (iter functions)")
                env2 = dict(env)
                env2[cl.params[0]] = (tr[1], False)
                b, tb = self.pure(cl.body.tail, env2)
                return k(f"(Option.map (fun ({lname(cl.params[0])} : {tz_lty(tr[1])}) => {b}) {r})", ("opt", tb))
            return self.cg(e.e, env, kr)
        if kd == "method" and e.e.kind == "self" and e.name in self.fnsigs:
            sig = self.fnsigs[e.name]

            def kargs(av):
                if [t for _, t in av] != sig["params"]:
                    fail(self.w(e), f"the call of `{e.name}`: argument types")
                for x in sig["externs"]:
                    self.ext(x)
                v = self.tmp()
                args = "".join(f" {x}" for x, _ in av) + "".join(f" ({x} := {x})" for x in sig["externs"])
                return [f"bnd ({sig['lean']}{args}) fun {v} =>"] + k(v, sig["ret"])
            return self.cg_args(e.args, env, [], kargs)
        return TzPipeGen.cg(self, e, env, k)

    def method(self, e, r, tr, av, k):
        if tr[0] == "opt" and e.name == "unwrap_or" and [t for _, t in av] == [tr[1]]:
            return k(f"(Option.getD {r} {av[0][0]})", tr[1])  # the argument is a value (evaluated before the call, as in Rust)
        return TzPipeGen.method(self, e, r, tr, av, k)

    def diverges(self, blk):
        return TzPipeGen.diverges(self, blk)

    def stmts(self, blk, i, env, frame, k):
        if i < len(blk.stmts) and blk.stmts[i].kind == "ifs":
            self.frame = frame
            s = blk.stmts[i]
            if not self.diverges(s.body):
                fail(self.w(s), "the block of an `if` statement without `else` has to end in `return` (iter functions)")

            def kc(c, tc):
                if tc != ("bool",):
                    fail(self.w(s), "the condition is not a `bool`")
                inner = self.block(s.body, env, frame, None)
                return [f"if {c} then ("] + self.ind(inner) + ["  )", "else ("] + self.ind(self.stmts(blk, i + 1, env, frame, k)) + ["  )"]
            return self.cg(s.c, env, kc)
        return TzPipeGen.stmts(self, blk, i, env, frame, k)

    def binder_for(self, sig):
        tps = [t for t in ("L", "DT", "Kind", "Comments") if re.search(rf"(?<![A-Za-z0-9_.]){t}(?![A-Za-z0-9_])", sig)]
        return "{" + " ".join(tps) + " : Type} " + ("[DecidableEq Kind] " if "Kind" in tps else "")

    def gen(self):
        f = self.node
        env = {pn: (pt, mut) for pn, pt, mut in f.params}
        self.frame = {"kind": "fn", "state": []}
        body = self.block(f.body, env, self.frame, None)
        if self.defs or self.fuel:
            fail(self.w(f), "loops are outside the translated subset (iter functions)")
        exts = list(self.externs)
        ps = " ".join(f"({lname(pn)} : {tz_lty(pt)})" for pn, pt, _ in f.params)
        rs = {"kind": "RuleKind", "bool": "bool"}
        sig = f"`OpeningHours::{f.name}(&self, " + ", ".join(f"{pn}: L::DateTime" for pn, _, _ in f.params) + f") -> {rs[f.ret[0]]}`"
        L = [f"/-- {sig} ({self.f}:{f.line})" + "".join(f"; {x} = {TZ_EXT[x][1]}" for x in exts) + " -/",
             f"def {self.lean_name} {self.binder_for(ps + self.ext_params(exts))}{ps}{self.ext_params(exts)} : R {tz_lty(f.ret, False)} :="]
        return L + self.ind(self.finish(body))


def iter_section(toks):
    tk = toks(F_OH)
    uses = file_uses(tk)
    for imp in [("chrono", "NaiveDateTime"), ("crate::localization", "Localize"), ("opening_hours_syntax::rules", "RuleKind")]:
        if imp not in uses:
            fail(F_OH, f"`use {imp[0]}::{imp[1]};` not found: the name `{imp[1]}` is read as that item")
    texts = [x.text for x in tk]
    if not any(texts[i : i + 6] == ["pub", "const", "DATE_END", ":", "NaiveDateTime", "="] for i in range(len(texts) - 6)):
        fail(F_OH, "`pub const DATE_END: NaiveDateTime = ..` not found")
    rel, en = ITER_KIND_ENUM
    rt = toks(rel)
    if not {"PartialEq", "Eq"} <= derives_of(toks.raw(rel), en):
        fail(rel, f"`{en}` has to derive PartialEq, Eq (`==` is translated as equality)")
    rtexts = [x.text for x in rt]
    hits = [i for i in range(len(rtexts) - 3) if rtexts[i : i + 3] == ["enum", en, "{"]]
    if len(hits) != 1:
        fail(rel, f"`enum {en} {{` not found (or found twice)")
    j, variants = hits[0] + 3, []
    while rtexts[j] != "}":
        if rt[j].kind != "id" or rtexts[j + 1] not in (",", "}"):
            fail(f"{rel}:{rt[j].line}", f"`enum {en}`: only plain variants are translated")
        variants.append(rtexts[j])
        j += 2 if rtexts[j + 1] == "," else 1
    L = ["/-! ### [iter extension] the point queries of opening-hours/src/opening_hours.rs (`state`, `is_open`, `is_closed`, `is_unknown`) -/", "",
         "namespace Localize", ""]
    where = find_impl_fns(tk, F_OH, "OpeningHours", None, ITER_TARGETS, header=TZ_OH_HEADER)
    fnsigs = {}
    for rname in ITER_TARGETS:
        p = IterParser(tk, F_OH, "ldt")
        p.i = where[rname]
        node = p.fn()
        g = IterGen(F_OH, "OpeningHours", node, variants, uses, fnsigs)
        L += g.gen() + [""]
        fnsigs[rname] = dict(lean=f"OpeningHours.{rname}", params=[pt for _, pt, _ in node.params], ret=node.ret, externs=list(g.externs))
    L += ["end Localize", ""]
    return L

# [iter extension], second part: `<TimeDomainIterator as Iterator>::next` (opening_hours.rs).  `&mut self` = the struct passed
# in and returned (`R (item × TimeDomainIterator)`); the `Peekable<crate::schedule::IntoIter>` field = the list of what is
# left (the convention of the schedule extension: `peek()` = `List.head?`); `NaiveDate` = its day number, `NaiveTime` = its
# nanosecond of the day, `NaiveDateTime::new(d, t)` = `d * 86 400·10⁹ + t` (the representation of OH/Model/RustTz.lean);
# `NaiveDateTime - NaiveDateTime` = the difference of the counts (`signed_duration_since`); `ExtendedTime` ABSTRACT (`Time`),
# its `try_into()` to `NaiveTime` the named parameter `ext_extended_time_try_into_naive_time` (`Err(())` = `none`; `.expect(m)`
# panics with `m: ()`); `self.consume_until_next_kind(k);` the named, effectful parameter `ext_consume_until_next_kind`
# (NOT translated: see the note); `self.opening_hours.ctx.approx_bound_interval_size` a named function of the abstract
# `OpeningHours<L>` value (`OH`).  New statement forms: `if let Some(x) = e { .. } else { .. }` as the body of the function,
# `self.method(args);` as a statement.
TDI_STRUCT = ["pub", "struct", "TimeDomainIterator", "<", "L", ":", "Clone", "+", "Localize", ">", "{", "opening_hours", ":", "OpeningHours", "<", "L", ">", ",",
              "curr_date", ":", "NaiveDate", ",", "curr_schedule", ":", "Peekable", "<", "crate", "::", "schedule", "::", "IntoIter", ">", ",",
              "end_datetime", ":", "NaiveDateTime", ",", "}"]
TDI_ITER_HEADER = ["impl", "<", "L", ":", "Localize", ">", "Iterator", "for", "TimeDomainIterator", "<", "L", ">"]
TDI_LTY = "TimeDomainIterator Time Kind Comments OH"
TZ_LTY.update({"tdi": TDI_LTY, "tr": "Sched.TimeRange Time Kind Comments", "time": "Time", "oh": "OH"})
TZ_EXT.update({
    "ext_consume_until_next_kind": (f"{TDI_LTY} → Kind → R ({TDI_LTY})", "`TimeDomainIterator::consume_until_next_kind(&mut self, curr_kind)` (not translated), effectful: the iterator after the call"),
    "ext_extended_time_try_into_naive_time": ("Time → Option Int", "`<ExtendedTime as TryInto<NaiveTime>>::try_into(self) -> Result<NaiveTime, ()>` (extended_time.rs; `Err(())` = `none`)"),
    "ext_oh_approx_bound_interval_size": ("OH → Option Int", "the field `.ctx.approx_bound_interval_size : Option<TimeDelta>` of the abstract `OpeningHours<L>` value"),
    "ExtendedTime_MIDNIGHT_00": ("Time", "the constant `ExtendedTime::MIDNIGHT_00`"),
})
_tz_lty_before_tdi = tz_lty


def tz_lty(t, top=True):  # noqa: F811  [iter extension]
    if t[0] in ("tdi", "tr"):
        return TZ_LTY[t[0]] if top else f"({TZ_LTY[t[0]]})"
    if t[0] in ("plist", "resunit"):
        s = f"{'List' if t[0] == 'plist' else 'Option'} {tz_lty(t[1], False)}"
        return s if top else f"({s})"
    return _tz_lty_before_tdi(t, top)


class TdiParser(IterParser):
    def type_(self):
        if [self.peek(k).text for k in range(3)] == ["Self", "::", "Item"]:
            self.i += 3
            return ("dtr", ("ndt",))
        return IterParser.type_(self)

    def fn(self):
        line = self.eat("fn").line
        name = self.ident()
        self.eat("(")
        self.eat("&")
        self.eat("mut")
        self.eat("self")
        self.eat(")")
        self.eat("->")
        ret = self.type_()
        return Node("fn", line, name=name, params=[], ret=ret, body=self.block(), mut_self=True)

    def stmt(self, in_block):
        tk = self.peek()
        if in_block and self.at("if") and self.peek(1).text == "let":
            save = self.i
            self.i += 2
            self.eat("Some")
            self.eat("(")
            name = self.ident()
            self.eat(")")
            self.eat("=")
            scrut = self.expr()
            body = self.block()
            if self.at("else"):
                self.i += 1
                if self.at("if"):
                    fail(self.where(), "`else if` is outside the translated subset (iter functions)")
                return Node("ifletelse", tk.line, name=name, scrut=scrut, body=body, els=self.block())
            self.i = save
        if in_block and self.at("self"):
            save = self.i
            e = self.expr()
            if self.at(";") and e.kind == "method" and e.e.kind == "self":
                self.i += 1
                return Node("selfcall", tk.line, e=e)
            self.i = save
        return IterParser.stmt(self, in_block)

    def add_(self):
        a = self.post()
        tk = self.peek()
        if tk.kind == "op" and tk.text in ("+", "-"):
            self.i += 1
            return Node("add" if tk.text == "+" else "sub", tk.line, a=a, b=self.post())
        return a

    def cmp_(self):
        if self.peek(1).kind == "op" and self.peek(1).text == "-":
            pass
        return IterParser.cmp_(self)

    def prim(self):
        tk = self.peek()
        if tk.kind == "id" and tk.text == "ExtendedTime" and self.peek(1).text == "::" and self.peek(2).kind == "id" and self.peek(3).text not in ("(", "::"):
            self.i += 3
            return Node("timeconst", tk.line, name=self.peek(-1).text)
        return IterParser.prim(self)


class TdiGen(IterGen):
    def fields_of(self, t):
        if t[0] == "tdi":
            return {"opening_hours": ("oh",), "curr_date": ("date",), "curr_schedule": ("plist", ("tr",)), "end_datetime": ("ndt",)}
        if t[0] == "tr":
            return {"range": ("range", ("time",)), "kind": ("kind",), "comments": ("comm",)}
        return IterGen.fields_of(self, t)

    def cg(self, e, env, k):
        kd = e.kind
        if kd == "self":
            return k("self", ("tdi",))
        if kd == "timeconst":
            if e.name not in self.time_consts:
                fail(self.w(e), f"`ExtendedTime::{e.name}` is not a constant of extended_time.rs that is translated here (iter functions)")
            TZ_EXT.setdefault(f"ExtendedTime_{e.name}", ("Time", f"the constant `ExtendedTime::{e.name}`"))
            return k(self.ext(f"ExtendedTime_{e.name}"), ("time",))
        if kd == "field" and e.name == "approx_bound_interval_size" and e.e.kind == "field" and e.e.name == "ctx":
            def ko(a, t):
                if t != ("oh",):
                    fail(self.w(e), "`.ctx.approx_bound_interval_size` is translated on the `opening_hours` field only (iter functions)")
                return k(f"({self.ext('ext_oh_approx_bound_interval_size')} {a})", ("opt", ("delta",)))
            return self.cg(e.e.e, env, ko)
        if kd == "sub":
            def ka(a, ta):
                def kb(b, tb):
                    if (ta, tb) != (("ndt",), ("ndt",)):
                        fail(self.w(e), f"`-` is translated as `NaiveDateTime - NaiveDateTime` only, found {tz_lty(ta)} - {tz_lty(tb)} (iter functions)")
                    return k(f"({a} - {b})", ("delta",))
                return self.cg(e.b, env, kb)
            return self.cg(e.a, env, ka)
        if kd == "cmp":
            def ka(a, ta):
                def kb(b, tb):
                    if ta != tb or ta[0] not in ("ndt", "kind", "delta", "date") or (ta[0] == "kind" and e.op not in ("==", "!=")):
                        fail(self.w(e), f"`{e.op}` between {tz_lty(ta)} and {tz_lty(tb)} is outside the translated subset (iter functions)")
                    op = {"==": "=", "!=": "≠", "<": "<", "<=": "≤", ">": ">", ">=": "≥"}[e.op]
                    return k(f"(decide ({a} {op} {b}))", ("bool",))
                return self.cg(e.b, env, kb)
            return self.cg(e.a, env, ka)
        if kd == "pathcall" and f"{e.ty}::{e.name}" == "NaiveDateTime::new" and len(e.args) == 2:
            def kargs(av):
                if [t for _, t in av] != [("date",), ("ntime",)]:
                    fail(self.w(e), "`NaiveDateTime::new(date, time)`: argument types")
                return k(f"({av[0][0]} * 86400000000000 + {av[1][0]})", ("ndt",))
            return self.cg_args(e.args, env, [], kargs)
        return IterGen.cg(self, e, env, k)

    def method(self, e, r, tr, av, k):
        name = e.name
        if tr[0] == "plist" and name == "peek" and not av:
            return k(f"(List.head? {r})", ("opt", tr[1]))  # `Option<&T>`
        if tr[0] == "opt" and name == "cloned" and not av:
            return k(r, tr)
        if tr[0] == "time" and name == "try_into" and not av:
            return k(f"({self.ext('ext_extended_time_try_into_naive_time')} {r})", ("resunit", ("ntime",)))
        if tr[0] == "resunit" and name == "expect" and [t for _, t in av] == [("str",)]:
            v = self.tmp()
            return [f"match {r} with", f"| none => .error (.panic \"{av[0][0]}: ()\")", f"| some {v} =>"] + k(v, tr[1])
        return IterGen.method(self, e, r, tr, av, k)

    def stmts(self, blk, i, env, frame, k):
        if i == len(blk.stmts) and blk.tail is not None and blk.tail.kind == "var" and blk.tail.name == "None" and "None" not in env \
                and frame["kind"] == "fn" and k is None and self.node.ret[0] == "opt":
            return self.ret(blk.tail, "none", self.node.ret, frame, env)
        if i < len(blk.stmts) and blk.stmts[i].kind == "selfcall":
            self.frame = frame
            s = blk.stmts[i]
            if s.e.name != "consume_until_next_kind" or len(s.e.args) != 1:
                fail(self.w(s), f"the call `self.{s.e.name}(..);` is outside the translated subset (iter functions)")

            def ka(a, t):
                if t != ("kind",):
                    fail(self.w(s), "`self.consume_until_next_kind(kind)`: argument type")
                v = self.tmp()
                return [f"bnd ({self.ext('ext_consume_until_next_kind')} self {a}) fun {v} =>", f"let self := {v}"] + self.stmts(blk, i + 1, env, frame, k)
            return self.cg(s.e.args[0], env, ka)
        if i < len(blk.stmts) and blk.stmts[i].kind == "ifletelse":
            self.frame = frame
            s = blk.stmts[i]
            if i + 1 != len(blk.stmts) or blk.tail is not None or k is not None or frame["kind"] != "fn":
                fail(self.w(s), "`if let .. else ..` is translated only as the whole body of the function (iter functions)")

            def ks(a, t):
                if t[0] != "opt":
                    fail(self.w(s), "`if let Some(..)` on a value that is not an `Option`")
                if s.name in env:
                    fail(self.w(s), f"the pattern variable `{s.name}` shadows a variable in scope (iter functions)")
                env2 = dict(env)
                env2[s.name] = (t[1], False)
                return [f"match {a} with", f"| some {lname(s.name)} => ("] + self.ind(self.block(s.body, env2, frame, None)) + ["  )", "| none => ("] \
                    + self.ind(self.block(s.els, env, frame, None)) + ["  )"]
            return self.cg(s.scrut, env, ks)
        return IterGen.stmts(self, blk, i, env, frame, k)

    def ret(self, node, a, t, frame, env):
        if t != self.node.ret:
            fail(self.w(node), f"the function returns a {tz_lty(t)} where its signature says {tz_lty(self.node.ret)}")
        if frame["kind"] != "fn":
            fail(self.w(node), "`return` inside a loop is outside the translated subset (iter functions)")
        return [f".ok ({a}, self)"]

    def gen(self):
        f = self.node
        self.frame = {"kind": "fn", "state": []}
        body = self.block(f.body, {}, self.frame, None)
        if self.defs or self.fuel:
            fail(self.w(f), "loops are outside the translated subset (iter functions)")
        exts = list(self.externs)
        L = [f"/-- `<TimeDomainIterator<L> as Iterator>::next(&mut self) -> Option<DateTimeRange>` ({self.f}:{f.line}); the result is the item and the iterator after the call"
             + "".join(f"; {x} = {TZ_EXT[x][1]}" for x in exts) + " -/",
             f"def TimeDomainIterator.next {{Time Kind Comments OH : Type}} (self : {TDI_LTY}){self.ext_params(exts)} : R ({tz_lty(f.ret, False)} × {tz_lty(('tdi',), False)}) :="]
        return L + self.ind(self.finish(body))


def iter_tdi_section(toks):
    tk = toks(F_OH)
    uses = file_uses(tk)
    for imp in [("chrono", "NaiveDateTime"), ("chrono", "NaiveDate"), ("std::iter", "Peekable"), ("opening_hours_syntax::extended_time", "ExtendedTime"),
                ("crate", "DateTimeRange"), ("opening_hours_syntax::rules", "RuleKind")]:
        if imp not in uses:
            fail(F_OH, f"`use {imp[0]}::{imp[1]};` not found: the name `{imp[1]}` is read as that item")
    if not SCHED_EXPORT:
        fail(F_SCHED, "the schedule section has to be generated first (`crate::schedule::IntoIter`, `TimeRange`)")
    texts = [x.text for x in tk]
    hits = [i for i in range(len(texts) - len(TDI_STRUCT)) if texts[i : i + len(TDI_STRUCT)] == TDI_STRUCT]
    if len(hits) != 1:
        fail(F_OH, "`pub struct TimeDomainIterator<L: Clone + Localize> { opening_hours: OpeningHours<L>, curr_date: NaiveDate, curr_schedule: "
                   "Peekable<crate::schedule::IntoIter>, end_datetime: NaiveDateTime, }` not found (or found twice)")
    if not any(texts[i : i + 6] == ["pub", "const", "DATE_END", ":", "NaiveDateTime", "="] for i in range(len(texts) - 6)):
        fail(F_OH, "`pub const DATE_END: NaiveDateTime = ..` not found")
    et = [x.text for x in toks("opening-hours-syntax/src/extended_time.rs")]
    time_consts = {et[i + 2] for i in range(len(et) - 5) if et[i : i + 2] == ["pub", "const"] and et[i + 3 : i + 5] == [":", "Self"]}
    want = ["impl", "TryInto", "<", "NaiveTime", ">", "for", "ExtendedTime", "{", "type", "Error", "=", "(", ")", ";"]
    if not any(et[i : i + len(want)] == want for i in range(len(et) - len(want))):
        fail("opening-hours-syntax/src/extended_time.rs", "`impl TryInto<NaiveTime> for ExtendedTime { type Error = (); ..` not found: `.try_into().expect(m)` is read as that impl (panic message `m: ()`)")
    where = find_impl_fns(tk, F_OH, "TimeDomainIterator", None, ["next"], header=TDI_ITER_HEADER)
    o = [i for i in range(len(texts) - len(TDI_ITER_HEADER)) if texts[i : i + len(TDI_ITER_HEADER)] == TDI_ITER_HEADER][0] + len(TDI_ITER_HEADER)
    if texts[o : o + 6] != ["{", "type", "Item", "=", "DateTimeRange", ";"]:
        fail(f"{F_OH}:{tk[o].line}", "`type Item = DateTimeRange;` expected at the head of `impl Iterator for TimeDomainIterator<L>`")
    L = ["/-! ### [iter extension] `<TimeDomainIterator as Iterator>::next` of opening-hours/src/opening_hours.rs -/", "", "namespace Localize", "",
         f"/-- `struct TimeDomainIterator<L>` ({F_OH}:{tk[hits[0]].line}); `OpeningHours<L>` is the type parameter `OH`; the `Peekable<crate::schedule::IntoIter>` is the list of the items it still yields -/",
         "structure TimeDomainIterator (Time Kind Comments OH : Type) where", "  opening_hours : OH", "  curr_date : Int",
         "  curr_schedule : List (Sched.TimeRange Time Kind Comments)", "  end_datetime : Int", ""]
    p = TdiParser(tk, F_OH, "ldt")
    p.i = where["next"]
    node = p.fn()
    g = TdiGen(F_OH, "TimeDomainIterator", node, [], uses, {})
    g.time_consts = time_consts
    L += g.gen() + ["", "end Localize", ""]
    return L

# [iter extension], third part: `TimeDomainIterator::new` (opening_hours.rs).  An associated function (no `self`); `&OpeningHours<L>` =
# the abstract `OH`; `opening_hours.schedule_at(d).into_iter().peekable()` = the named, effectful parameter `ext_oh_day_schedule`
# (the list of the items the day iterator yields: `schedule_at` and `IntoIter` are translated in the eval / schedule sections, the
# link is NOT made here); `ndt.date()` = the count `/ 86 400·10⁹`, `ndt.time()` = `TzChrono.ndt_time`, `.into()` on a `NaiveTime` =
# `ExtendedTime::from` (named parameter); `(&mut it).for_each(|_| {});` = the list emptied; `it.next();` as a statement = the tail;
# `range.contains(&x)` on `ExtendedTime`s (abstract, with its derived order), `!`, `true` / `false`; an `if` statement that falls
# through; `Self { .. }`; the `while` loop is a definition with `fuel` (tz front end).
TDI_IMPL_HEADER = ["impl", "<", "L", ":", "Localize", ">", "TimeDomainIterator", "<", "L", ">"]
TDI_NEW_BINDER = "{Time Kind Comments OH : Type} [LT Time] [LE Time] [DecidableLT Time] [DecidableLE Time] "
TZ_EXT.update({
    "ext_oh_day_schedule": ("OH → Int → R (List (Sched.TimeRange Time Kind Comments))",
                            "`opening_hours.schedule_at(date).into_iter().peekable()`: the items the day iterator yields (`OpeningHours::schedule_at`, `schedule::IntoIter`: not linked here), effectful"),
    "ext_naive_time_into_extended_time": ("Int → Time", "`<ExtendedTime as From<NaiveTime>>::from` (extended_time.rs), reached through `.into()`"),
})


class TdiNewParser(TdiParser):
    def type_(self):
        texts = [self.peek(k).text for k in range(5)]
        if texts == ["&", "OpeningHours", "<", "L", ">"]:
            self.i += 5
            return ("oh",)
        if texts[0] == "Self" and texts[1] != "::":
            self.i += 1
            return ("tdi",)
        return TdiParser.type_(self)

    def fn(self):
        line = self.eat("fn").line
        name = self.ident()
        self.eat("(")
        params = []
        while not self.at(")"):
            pn = self.ident()
            self.eat(":")
            params.append((pn, self.type_(), False))
            if not self.at(")"):
                self.eat(",")
        self.eat(")")
        self.eat("->")
        ret = self.type_()
        return Node("fn", line, name=name, params=params, ret=ret, body=self.block(), mut_self=False)

    def stmt(self, in_block):
        tk = self.peek()
        if in_block and not (self.at("let") or self.at("if") or self.at("while") or self.at("return") or self.at("match") or self.at("loop")):
            save = self.i
            e = self.expr()
            if self.at(";") and e.kind == "method":
                self.i += 1
                return Node("exprstmt", tk.line, e=e)
            self.i = save
        return TdiParser.stmt(self, in_block)

    def prim(self):
        tk = self.peek()
        if tk.kind == "op" and tk.text == "&" and self.peek(1).text == "mut":
            self.i += 2
            return Node("refmut", tk.line, e=self.post())
        if tk.kind == "op" and tk.text == "!":
            self.i += 1
            return Node("not", tk.line, e=self.post())
        if tk.kind == "id" and tk.text == "Self" and self.peek(1).text == "{" and self.peek(2).kind == "id" and self.peek(3).text in (",", ":", "}"):
            self.i += 2
            fields = []
            while not self.at("}"):
                fn_ = self.ident()
                if self.at(":"):
                    self.i += 1
                    fields.append((fn_, self.expr()))
                else:
                    fields.append((fn_, Node("var", tk.line, name=fn_)))
                if not self.at("}"):
                    self.eat(",")
            self.eat("}")
            return Node("structlit", tk.line, fields=fields)
        return TdiParser.prim(self)

    def closure(self, tk):
        if self.at("|") and self.peek(1).text == "_" and self.peek(2).text == "|":
            self.i += 3
            return Node("closure", tk.line, params=["_"], body=self.block() if self.at("{") else Node("block", tk.line, stmts=[], tail=self.expr()))
        return TdiParser.closure(self, tk)


class TdiNewGen(TdiGen):
    def cg(self, e, env, k):
        kd = e.kind
        if kd == "var" and e.name in ("true", "false") and e.name not in env:
            return k(e.name, ("bool",))
        if kd == "not":
            def kn(a, t):
                if t != ("bool",):
                    fail(self.w(e), "`!` on a value that is not a `bool` (iter functions)")
                return k(f"(!{a})", ("bool",))
            return self.cg(e.e, env, kn)
        if kd == "method" and e.name == "peekable" and not e.args and e.e.kind == "method" and e.e.name == "into_iter" and not e.e.args \
                and e.e.e.kind == "method" and e.e.e.name == "schedule_at" and len(e.e.e.args) == 1:
            def ko(o, to):
                def kd_(d, td):
                    if to != ("oh",) or td != ("date",):
                        fail(self.w(e), "`opening_hours.schedule_at(date).into_iter().peekable()`: receiver / argument types (iter functions)")
                    v = self.tmp()
                    return [f"bnd ({self.ext('ext_oh_day_schedule')} {o} {d}) fun {v} =>"] + k(v, ("plist", ("tr",)))
                return self.cg(e.e.e.args[0], env, kd_)
            return self.cg(e.e.e.e, env, ko)
        if kd == "structlit":
            want = ["opening_hours", "curr_date", "curr_schedule", "end_datetime"]
            if sorted(n for n, _ in e.fields) != sorted(want):
                fail(self.w(e), f"`Self {{ .. }}`: the fields {want} are expected, each once (iter functions)")
            fts = self.fields_of(("tdi",))

            def go(i, acc):
                if i == len(e.fields):
                    return k("({ " + ", ".join(f"{lname(n)} := {a}" for n, a in acc) + f" }} : {TDI_LTY})", ("tdi",))
                n, x = e.fields[i]

                def kx(a, t):
                    if t != fts[n]:
                        fail(self.w(e), f"`Self {{ {n}: .. }}`: a {tz_lty(t)} where the field is a {tz_lty(fts[n])}")
                    return go(i + 1, acc + [(n, a)])
                return self.cg(x, env, kx)
            return go(0, [])
        return TdiGen.cg(self, e, env, k)

    def method(self, e, r, tr, av, k):
        name, tys = e.name, [t for _, t in av]
        if tr == ("oh",) and name == "clone" and not av:
            return k(r, tr)
        if tr == ("ndt",) and name == "date" and not av:
            return k(f"({r} / 86400000000000)", ("date",))
        if tr == ("ndt",) and name == "time" and not av:
            return k(f"(TzChrono.ndt_time {r})", ("ntime",))
        if tr == ("ntime",) and name == "into" and not av:
            return k(f"({self.ext('ext_naive_time_into_extended_time')} {r})", ("time",))
        if tr == ("range", ("time",)) and name == "contains" and tys == [("time",)]:
            return k(f"(decide ({r}.start ≤ {av[0][0]}) && decide ({av[0][0]} < {r}.«end»))", ("bool",))
        return TdiGen.method(self, e, r, tr, av, k)

    def stmts(self, blk, i, env, frame, k):
        if i < len(blk.stmts):
            s = blk.stmts[i]

            def rest(env2):
                return self.stmts(blk, i + 1, env2, frame, k)
            if s.kind == "let" and not s.mut and s.e.kind == "method" and s.e.name == "clone" and not s.e.args and s.e.e.kind == "var" \
                    and s.e.e.name == s.name and s.name in env and not env[s.name][1]:
                self.frame = frame
                self.cg(s.e, env, lambda a, t: [])  # type-checks the receiver (`clone` has to be known on it)
                return rest(env)  # `let x = x.clone();`: the same value under the same name
            if s.kind == "exprstmt":
                self.frame = frame
                e = s.e
                tgt = e.e.e if e.e.kind == "refmut" else e.e
                if tgt.kind != "var" or tgt.name not in env or env[tgt.name][0][0] != "plist":
                    fail(self.w(s), "an expression statement is translated on a local `Peekable` only (iter functions)")
                if not env[tgt.name][1]:
                    fail(self.w(s), f"`{tgt.name}` is not `mut`")
                n = lname(tgt.name)
                if e.name == "next" and not e.args and e.e.kind == "var":
                    return [f"let {n} := List.tail {n}"] + rest(env)
                if e.name == "for_each" and e.e.kind == "refmut" and len(e.args) == 1 and e.args[0].kind == "closure" and e.args[0].params == ["_"] \
                        and not e.args[0].body.stmts and e.args[0].body.tail is None:
                    return [f"let {n} := ([] : {tz_lty(env[tgt.name][0])})"] + rest(env)
                fail(self.w(s), f"the statement `.{e.name}(..);` is outside the translated subset (iter functions)")
            if s.kind == "ifs" and not self.diverges(s.body):
                self.frame = frame

                def kc(c, tc):
                    if tc != ("bool",):
                        fail(self.w(s), "the condition is not a `bool`")
                    for x in s.body.stmts:
                        if x.kind != "exprstmt":
                            fail(self.w(x), "an `if` statement that falls through may only contain statements on a local `Peekable` (iter functions)")
                    # the variables written in the block are `mut` locals of the enclosing scope: the continuation is generated in both branches
                    inner = self.block(s.body, env, frame, lambda e3: rest(env))
                    return [f"if {c} then ("] + self.ind(inner) + ["  )", "else ("] + self.ind(rest(env)) + ["  )"]
                return self.cg(s.c, env, kc)
        return TdiGen.stmts(self, blk, i, env, frame, k)

    def ret(self, node, a, t, frame, env):
        if t != self.node.ret:
            fail(self.w(node), f"the function returns a {tz_lty(t)} where its signature says {tz_lty(self.node.ret)}")
        if frame["kind"] in ("fn", "loop"):
            return [f".ok {a}"]
        return [f".ok (.ret {a} {self.tuple_(frame['state'])})"]

    def gen(self):
        f = self.node
        env = {pn: (pt, mut) for pn, pt, mut in f.params}
        self.frame = {"kind": "fn", "state": []}
        body = self.block(f.body, env, self.frame, None)
        exts = list(self.externs)
        L = []
        for name, line, what, params, rty, lines, dexts in self.defs:
            if what != "while":
                fail(f"{self.f}:{line}", "only `while` loops are translated (iter functions)")
            L.append(f"/-- the `while` loop of `TimeDomainIterator::{f.name}` ({self.f}:{line}); `fuel` bounds its iterations; `.ret v s` = `return v`, `.next s` = the condition failed"
                     + "".join(f"; {x} = {TZ_EXT[x][1]}" for x in dexts) + " -/")
            L.append(f"def {name} {TDI_NEW_BINDER}{params}{self.ext_params(dexts)} : {rty} :=")
            L += self.ind(self.finish(lines)) + [""]
        ps = " ".join(f"({lname(pn)} : {tz_lty(pt)})" for pn, pt, _ in f.params)
        L.append(f"/-- `TimeDomainIterator::{f.name}(opening_hours: &OpeningHours<L>, start_datetime: NaiveDateTime, end_datetime: NaiveDateTime) -> Self` ({self.f}:{f.line})"
                 + "".join(f"; {x} = {TZ_EXT[x][1]}" for x in exts) + ("; `fuel` bounds the iterations of the loop (running out is an error outcome)" if self.fuel else "") + " -/")
        L.append(f"def {self.lean_name} {TDI_NEW_BINDER}{ps}{self.ext_params(exts)}{' (fuel : Nat)' if self.fuel else ''} : R {tz_lty(f.ret, False)} :=")
        return L + self.ind(self.finish(body))


def iter_tdi_new_section(toks):
    tk = toks(F_OH)
    uses = file_uses(tk)
    for imp in [("chrono", "NaiveDateTime"), ("std::iter", "Peekable")]:
        if imp not in uses:
            fail(F_OH, f"`use {imp[0]}::{imp[1]};` not found: the name `{imp[1]}` is read as that item")
    texts = [x.text for x in tk]
    if len([i for i in range(len(texts) - len(TDI_STRUCT)) if texts[i : i + len(TDI_STRUCT)] == TDI_STRUCT]) != 1:
        fail(F_OH, "the declaration of `struct TimeDomainIterator` is not the expected one (see the section `iter-next`)")
    et = [x.text for x in toks("opening-hours-syntax/src/extended_time.rs")]
    want = ["impl", "From", "<", "NaiveTime", ">", "for", "ExtendedTime", "{"]
    if not any(et[i : i + len(want)] == want for i in range(len(et) - len(want))):
        fail("opening-hours-syntax/src/extended_time.rs", "`impl From<NaiveTime> for ExtendedTime {` not found: `.into()` on a `NaiveTime` is read as that impl")
    where = find_impl_fns(tk, F_OH, "TimeDomainIterator", None, ["new"], header=TDI_IMPL_HEADER)
    L = ["/-! ### [iter extension] `TimeDomainIterator::new` of opening-hours/src/opening_hours.rs -/", "", "namespace Localize", ""]
    p = TdiNewParser(tk, F_OH, "ldt")
    p.i = where["new"]
    node = p.fn()
    g = TdiNewGen(F_OH, "TimeDomainIterator", node, [], uses, {})
    g.time_consts = set()
    L += g.gen() + ["", "end Localize", ""]
    return L

# ---- end of [iter extension] --------------------------------------------------------------------

# [weekday extension] eighth increment (notes/RS2LEAN8-weekday.md): `impl DateFilter for ds::WeekDayRange` `filter` of
# opening-hours/src/filter/date_filter.rs, chrono mode, on top of the week extension's front end (`WeekParser` / `WeekDatesGen`).
# New constructs: `match self` over the struct-variant enum `WeekDayRange` (the type is generated from the declaration the tables
# check in day.rs), the struct-variant VALUE `ds::WeekDayRange::Fixed { f: e, .. }`, the recursive call `VALUE.filter(date, ctx)`
# (the definition gets a leading `fuel`; the theorems prove 2 suffice), `a || b` / `a && b` with their short circuit, `[bool; 5]`
# indexing by `usize::from(u8)` with the `index out of bounds` outcome, `Weekday as u8` (chrono declares `Mon = 0 .. Sun = 6`: the
# number chrono mode keeps), `x / LIT` on an unsigned type, `i64::saturating_neg`, `ds::add_days_saturating` and
# `count_days_in_month` (the translated functions), and the context's calendars as by-name parameters
# (`ext_public_contains` / `ext_school_contains` = `ctx.holidays.public/school.contains`).
WD_HDR = "impl DateFilter for ds :: WeekDayRange"
WD_SIG = "fn filter < L > ( & self , NaiveDate , & Context < L > ) -> bool where Localize ,"
WD_DECLS = [
    (False, "pub enum WeekDayRange { Fixed { range : RangeInclusive < Weekday > , offset : i64 , nth_from_start : [ bool ; 5 ] , nth_from_end : [ bool ; 5 ] , } , Holiday { kind : HolidayKind , offset : i64 , } , }",
     "`enum WeekDayRange { Fixed { range, offset, nth_from_start, nth_from_end }, Holiday { kind, offset } }`"),
    (False, "pub enum HolidayKind { Public , School , }", "`enum HolidayKind { Public, School }`"),
    (False, "pub use chrono :: Weekday ;", "`pub use chrono::Weekday;` (`ds::Weekday` is read as chrono's)"),
]
WD_FIELDS = {"Fixed": [("range", ("rng", "wd")), ("offset", "i64"), ("nth_from_start", "arr"), ("nth_from_end", "arr")],
             "Holiday": [("kind", "kind"), ("offset", "i64")]}
WD_EXT = "ext_public_contains ext_school_contains"


class WeekDayParser(WeekParser):
    def primary(self, nostruct):
        t = [self.peek(j).text for j in range(6)]
        if t == ["ds", "::", "WeekDayRange", "::", "Fixed", "{"] and not nostruct:
            # the struct-variant VALUE `ds::WeekDayRange::Fixed { f: e, .. }`
            line = self.peek().line
            self.i += 5
            self.eat("{")
            fields = []
            while not self.at("}"):
                fn = self.ident()
                self.eat(":")
                fields.append((fn, self.expr()))
                if not self.at("}"):
                    self.eat(",")
            self.eat("}")
            return Node("wdlit", line, fields=fields)
        return WeekParser.primary(self, nostruct)


class WeekDayGen(WeekDatesGen):
    def __init__(self, rel, fname, uses, datelike, dname, cname):
        WeekGen.__init__(self, rel, fname, fname, uses, datelike)
        self.ret = "bool"
        self.dname, self.cname, self.recursive = dname, cname, False

    def site(self, n):
        return f'"WeekDayRange::{self.fname}:{n.line}"'

    def ret_k(self, a, t):
        if self.strip(t) != "bool":
            fail(self.rel, f"{self.fname}: a returned value has type {t}, the function returns bool")
        return [f".ok {a}"]

    def ex(self, n, env, want=None):
        k = n.kind
        if k == "var" and n.name in env and env[n.name][1] in ("ctx",):
            fail(self.w(n), "the context is only read as `ctx.holidays.public` / `ctx.holidays.school` or passed on to `filter` (weekday functions)")
        if k == "cast":
            pre, a, t = self.ex(n.e, env)
            to = n.to[1] if isinstance(n.to, tuple) and n.to[0] == "int" else None
            if self.strip(t) == "wd":
                if to != "u8":
                    fail(self.w(n), "only `Weekday as u8` is translated (weekday functions)")
                if ("chrono", "Weekday") not in self.uses:
                    fail(self.w(n), "`Weekday` is read as chrono's, but the file does not import it from there")
                return pre, a, "u8"  # chrono: `Mon = 0, .., Sun = 6`, the number chrono mode keeps
        if k == "range" and n.incl:
            pl, a, tl = self.ex(n.l, env)
            pr, b, tr = self.ex(n.r, env)
            tl, tr = self.strip(tl), self.strip(tr)
            if tl != tr or tl not in WEEK_INTS + ("wd",):
                fail(self.w(n), "only `a..=b` over one integer type or over `Weekday` is translated (weekday functions)")
            return pl + pr, f"(RangeInclusive.mk {a} {b})", ("rng", tl)
        if k == "method" and n.name == "saturating_neg" and not n.args:
            pre, a, t = self.ex(n.e, env)
            if self.strip(t) != "i64":
                fail(self.w(n), f"`.saturating_neg()` on a value of type {t} is outside the translated subset (weekday functions)")
            return pre, f"(saturatingNeg .i64 {a})", "i64"
        if k == "method" and n.name == "contains" and len(n.args) == 1:
            pre, a, t = self.ex(n.e, env)
            if self.strip(t) != "cal":
                fail(self.w(n), f"`.contains(..)` on a value of type {t} is outside the translated subset (weekday functions)")
            p2, b, t2 = self.ex(n.args[0], env)
            if self.strip(t2) != "date":
                fail(self.w(n), f"`calendar.contains(..)` of a value of type {t2}")
            return pre + p2, f"({a} {b})", "bool"
        if k == "method" and n.name == self.fname and n.e.kind == "wdlit":
            pre, a, t = self.ex(n.e, env)
            if (len(n.args) != 2 or n.args[0].kind != "var" or n.args[1].kind != "var" or n.args[1].name != self.cname
                    or n.args[0].name not in env or env[n.args[0].name][1] != "date"):
                fail(self.w(n), f"the recursive call is translated as `VALUE.{self.fname}(<a date variable>, {self.cname})` only")
            self.recursive = True
            v = self.fresh()
            return pre + [f"bnd ({self.fname} fuel {a} {env[n.args[0].name][0]} {WD_EXT}) fun {v} =>"], v, "bool"
        if k == "wdlit":
            want_f = WD_FIELDS["Fixed"]
            if sorted(f for f, _ in n.fields) != sorted(f for f, _ in want_f) or len(n.fields) != len(want_f):
                fail(self.w(n), "`WeekDayRange::Fixed { .. }` has to give exactly the fields of the declaration")
            pre, atoms = [], {}
            for fn, fe in n.fields:  # Rust evaluates the fields in the order they are written
                p, a, t = self.ex(fe, env)
                if self.strip(t) != dict(want_f)[fn]:
                    fail(self.w(fe), f"field `{fn}`: expected {dict(want_f)[fn]}, found {t}")
                pre += p
                atoms[fn] = a
            return pre, "(.Fixed " + " ".join(atoms[f] for f, _ in want_f) + ")", "wdr"
        if k == "call" and getattr(n, "alias", None) == "ds" and n.path == ["add_days_saturating"] and len(n.args) == 2:
            pa, a, ta = self.ex(n.args[0], env)
            pb, b, tb = self.ex(n.args[1], env)
            if self.strip(ta) != "date" or self.strip(tb) != "i64":
                fail(self.w(n), f"`ds::add_days_saturating` of ({ta}, {tb})")
            v = self.fresh()
            return pa + pb + [f"bnd (Day.add_days_saturating {a} {b}) fun {v} =>"], v, "date"
        if k == "call" and n.path == ["count_days_in_month"] and len(n.args) == 1 and getattr(n, "alias", None) is None:
            if ("crate::utils::dates", "count_days_in_month") not in self.uses:
                fail(self.w(n), "`count_days_in_month` is read as `crate::utils::dates`', but the file does not import it from there")
            if any(nm == "week-dates" for nm, _ in SKIPPED_SECTIONS):
                fail(self.w(n), "`count_days_in_month` was not translated in this run (section week-dates)")
            pa, a, ta = self.ex(n.args[0], env)
            if self.strip(ta) != "date":
                fail(self.w(n), f"`count_days_in_month` of a value of type {ta}")
            v = self.fresh()
            return pa + [f"bnd (Dates.count_days_in_month {a}) fun {v} =>"], v, "u8"
        if k == "call" and n.path == ["usize", "from"] and len(n.args) == 1:
            pa, a, ta = self.ex(n.args[0], env)
            if self.strip(ta) != "u8":
                fail(self.w(n), f"`usize::from` of a value of type {ta} is outside the translated subset")
            return pa, a, "usize"
        if k == "index":
            pa, a, ta = self.ex(n.e, env)
            pi, i, ti = self.ex(n.idx, env)
            if self.strip(ta) != "arr" or ti != "usize":
                fail(self.w(n), f"indexing a value of type {ta} by a value of type {ti} is outside the translated subset (weekday functions)")
            v = self.fresh()
            return pa + pi + [f"match {a}.toList[({i}).toNat]? with", '| none => .error (.panic "index out of bounds")', f"| some {v} =>"], v, "bool"
        if k == "bin" and n.op == "/":
            pl, a, tl = self.ex(n.l, env)
            tl = self.strip(tl)
            if tl != "u8" or n.r.kind != "lit" or n.r.value == 0:
                fail(self.w(n), "only `x / LIT` on a `u8` with a non-zero literal is translated (weekday functions)")
            pr, b, tr = self.ex(n.r, env, tl)
            return pl + pr, f"({a} / {b})", tl  # unsigned: truncated = floor division; a non-zero literal cannot fail
        return WeekDatesGen.ex(self, n, env, want)

    def val(self, n, env, want, ret_k, k):
        if n.kind == "paren":
            return self.val(n.e, env, want, ret_k, k)
        if n.kind == "bin" and n.op in ("||", "&&"):
            def k2(a, t):
                if self.strip(t) != "bool":
                    fail(self.w(n), f"`{n.op}` on a value of type {t}")
                rest = ["  " + x for x in self.val(n.r, env, "bool", ret_k, k)]
                if n.op == "||":
                    return [f"if {a} then"] + ["  " + x for x in k("true", "bool")] + ["else"] + rest
                return [f"if {a} then"] + rest + ["else"] + ["  " + x for x in k("false", "bool")]
            return self.val(n.l, env, "bool", ret_k, k2)
        return WeekDatesGen.val(self, n, env, want, ret_k, k)

    def stmts(self, ss, tail, env):
        if ss and ss[0].kind == "let" and ss[0].e.kind == "match":
            # `let calendar = match kind { ds::HolidayKind::Public => &ctx.holidays.public, ds::HolidayKind::School => &ctx.holidays.school };`
            s, m = ss[0], ss[0].e
            if s.mut or s.ann is not None or m.scrut.kind != "var" or m.scrut.name not in env or self.strip(env[m.scrut.name][1]) != "kind":
                fail(self.w(s), "only `let x = match <HolidayKind> { .. };` is a translated `let .. = match` (weekday functions)")
            arms = []
            for pat, body in m.arms:
                b = body.tail if body.kind == "block" and not body.stmts else None
                ok = (pat.kind == "pvariant" and pat.enum == "HolidayKind" and not getattr(pat, "binds", None) and b is not None and b.kind == "ref"
                      and b.e.kind == "field" and b.e.name in ("public", "school") and b.e.e.kind == "field" and b.e.e.name == "holidays"
                      and b.e.e.e.kind == "var" and b.e.e.e.name == self.cname)
                if not ok:
                    fail(self.w(pat), f"only `ds::HolidayKind::X => &{self.cname}.holidays.public / .school` is a translated arm here (weekday functions)")
                arms.append((pat.name, b.e.name))
            if sorted(a for a, _ in arms) != ["Public", "School"]:
                fail(self.w(m), "the match on `HolidayKind` has to have exactly the arms `Public` and `School`")
            env2 = dict(env)
            env2[s.name] = (lname(s.name), "cal", False)
            return ([f"let {lname(s.name)} : Int → Bool := (match {env[m.scrut.name][0]} with " + " ".join(f"| .{a} => ext_{c}_contains" for a, c in arms) + ")"]
                    + self.stmts(ss[1:], tail, env2))
        return WeekDatesGen.stmts(self, ss, tail, env)


def weekday_section(toks, raw):
    """the Lean text (lines) of `WeekDayRange::filter`"""
    for rel in (F_DF, F_DAY, F_RANGE, F_DATES):
        if rel in EXCLUDED_FILES:
            fail(rel, "the main pipeline left this file out; the weekday functions use its types and functions")
    tk, dtk = toks(F_DF), toks(F_DAY)
    for is_raw, text, what in WD_DECLS:
        if not week_find(raw(F_DAY) if is_raw else dtk, text.split()):
            fail(F_DAY, f"{what} not found (tables of the weekday extension)")
    uses = file_uses(tk)
    if ALIASES[F_DF]["ds"] != "opening_hours_syntax::rules::day" or not has_use_as(tk, ALIASES[F_DF]["ds"], "ds"):
        fail(F_DF, "`ds::` is read as `opening_hours_syntax::rules::day::`, but the file does not import it under that name")
    datelike = ("chrono::prelude", "Datelike") in uses
    name = "filter"
    at = find_impl_fns(tk, F_DF, "WeekDayRange", None, [name], WD_HDR.split())[name]
    got = d3_sig_text(tk, at)
    if got.rstrip() != WD_SIG:
        fail(f"{F_DF}:{tk[at].line}", f"the signature of `WeekDayRange::{name}` changed: expected `{WD_SIG}`, found `{got}` (tables of the weekday extension)")
    p = WeekDayParser(tk, F_DF, {"WeekDayRange"}, uses=std_uses(tk), enums=set(), aliases={"ds"}, modelled=True, penums={"WeekDayRange", "HolidayKind"})
    p.i = at
    node = p.fn()
    (dname, _), (cname, _) = node.params
    g = WeekDayGen(F_DF, name, uses, datelike, dname, cname)
    m = node.body.tail
    if node.body.stmts or m.kind != "match" or m.scrut.kind != "self":
        fail(f"{F_DF}:{node.line}", f"`WeekDayRange::{name}` is translated as one `match self {{ .. }}` only")
    seen, arms_l = [], []
    for pat, body in m.arms:
        if pat.kind != "svariant" or pat.enum != "WeekDayRange" or pat.name not in WD_FIELDS or pat.name in seen or getattr(pat, "guard", None) is not None:
            fail(g.w(pat), "only the arms `ds::WeekDayRange::Fixed { .. }` / `ds::WeekDayRange::Holiday { .. }`, once each, are translated")
        seen.append(pat.name)
        env = {dname: (lname(dname), "date", False), cname: (lname(cname), "ctx", False)}
        binders = []
        given = dict(pat.fields)
        if any(f not in dict(WD_FIELDS[pat.name]) for f in given) or (len(given) != len(WD_FIELDS[pat.name]) and not pat.rest):
            fail(g.w(pat), f"the pattern of `{pat.name}` does not name the fields of the declaration")
        for f, ty in WD_FIELDS[pat.name]:
            sub = given.get(f)
            if sub is None:
                binders.append("_")
                continue
            if sub[0] != "bind" or sub[1] in env:
                fail(g.w(pat), f"field pattern of `{f}` is outside the translated subset (weekday functions)")
            env[sub[1]] = (lname(sub[1]), ("ref", ty), False)  # `match self` on `&Self`: the bindings are references
            binders.append(lname(sub[1]))
        if body.kind != "block":
            fail(g.w(pat), "the arm is not a block")
        arms_l += [f"| .{pat.name} " + " ".join(binders) + " =>"] + ["  " + x for x in g.stmts(body.stmts, body.tail, env)]
    if sorted(seen) != ["Fixed", "Holiday"]:
        fail(g.w(m), "`match self` has to have the arms `Fixed` and `Holiday`")
    if g.loops or g.conts:
        fail(f"{F_DF}:{node.line}", f"`WeekDayRange::{name}`: a loop / a nested `return` here is outside the translated subset")
    if not g.recursive:
        fail(f"{F_DF}:{node.line}", f"`WeekDayRange::{name}` does not call itself any more: the parameter `fuel` of the tables of the weekday extension is stale")
    L = ["/-! ### [weekday extension] `impl DateFilter for ds::WeekDayRange` `filter` (opening-hours/src/filter/date_filter.rs), chrono mode -/", "",
         "/-- `enum HolidayKind` (opening-hours-syntax/src/rules/day.rs; declaration checked on every run) -/",
         "inductive HolidayKind where", "  | Public", "  | School", "  deriving DecidableEq, Repr", "",
         "/-- `enum WeekDayRange` (opening-hours-syntax/src/rules/day.rs; declaration checked on every run); a `Weekday` is its number of days from Monday, `[bool; 5]` a `Vector Bool 5` -/",
         "inductive WeekDayRange where",
         "  | Fixed (range : RangeInclusive Int) (offset : Int) (nth_from_start : Vector Bool 5) (nth_from_end : Vector Bool 5)",
         "  | Holiday (kind : HolidayKind) (offset : Int)", "",
         "namespace WeekDayRange", "",
         f"/-- `<L> WeekDayRange::{name}(&self, {dname}: NaiveDate, {cname}: &Context<L>) -> bool` ({F_DF}:{node.line}); `fuel` = the depth of the recursive calls "
         f"allowed (OH/Props/ArithC01WeekDay.lean: 2 suffice); ext_public_contains / ext_school_contains = `{cname}.holidays.public.contains` / `.school.contains`, "
         f"by-name parameters (the calendars of the context are not translated here) -/",
         f"def {name} (fuel : Nat) (self : WeekDayRange) ({lname(dname)} : Int) ({WD_EXT} : Int → Bool) : R Bool :=",
         "  match fuel with", "  | 0 => .error (.panic loopFuelExhausted)", "  | fuel + 1 =>", "  match self with"]
    L += ["  " + x for x in arms_l]
    L += ["", "end WeekDayRange", ""]
    return L

# ---- [weekday extension], second part: `WeekDayRange::next_change_hint` (same impl block) ----
# `Some({ block })` with `?` inside the block (the `none => .ok none` arm), the pattern `field: _`, `calendar.first_after(d)` as a
# second by-name parameter per calendar, `OPT.map(|x| e).unwrap_or_else(|| DATE_END.date())` as a two-armed match.
WD_HINT_SIG = "fn next_change_hint < L > ( & self , NaiveDate , & Context < L > ) -> Option < NaiveDate > where Localize ,"
WD_EXT_HINT = WD_EXT + " ext_public_first_after ext_school_first_after"


class WeekDayHintParser(WeekDayParser):
    def dated_svariant_fields(self, enum, variant, line):
        """`{ f, g: _, .. }` after `Enum::Variant` in a pattern (the base form plus `field: _`)"""
        self.eat("{")
        fields, rest = [], False
        while not self.at("}"):
            if self.at(".."):
                self.i += 1
                rest = True
                if not self.at("}"):
                    fail(self.where(), "`..` has to end the pattern")
                break
            ftk = self.peek()
            fn = self.ident()
            if not re.fullmatch(r"[a-z_][a-z0-9_]*", fn) or re.fullmatch(r"(tmp|ext)\d+", fn):
                fail(self.where(ftk), f"field pattern `{fn}`")
            sub = ("bind", fn)
            if self.at(":"):
                self.i += 1
                if not self.at("_"):
                    fail(self.where(), "only `field` and `field: _` are translated inside this struct-variant pattern (weekday functions)")
                self.i += 1
                sub = None
            if sub is not None:
                fields.append((fn, sub))
            else:
                rest = True  # an ignored field: as if it were covered by `..` (the name is still checked against the declaration below)
                fields.append((fn, ("wild",)))
            if not self.at("}"):
                self.eat(",")
        self.eat("}")
        return Node("svariant", line, enum=enum, name=variant, fields=fields, rest=rest)


class WeekDayHintGen(WeekDayGen):
    def __init__(self, rel, fname, uses, datelike, dname, cname):
        WeekDayGen.__init__(self, rel, fname, uses, datelike, dname, cname)
        self.ret = ("opt", "date")

    def ret_k(self, a, t):
        return WeekGen.ret_k(self, a, t)

    def k_some(self, a, t):
        if self.strip(t) != "date":
            fail(self.rel, f"{self.fname}: the block inside `Some(..)` has a value of type {t}")
        return [f".ok (some {a})"]

    def block_k(self, ss, tail, env, k):
        """the statements of a value block, then its tail; the value leaves go to `k`, a failing `?` ends the function with `None`"""
        if ss:
            s = ss[0]
            if s.kind != "let" or s.ann is not None or s.mut or self.has_return(s.e):
                fail(self.w(s), "only plain `let x = e;` statements are translated inside `Some({ .. })` (weekday functions)")
            pre, a, t = self.ex(s.e, env)
            env2 = dict(env)
            env2[s.name] = (lname(s.name), t, False)
            return pre + [f"let {lname(s.name)} := {a}"] + self.block_k(ss[1:], tail, env2, k)
        n = tail
        if n.kind == "if":
            if n.a is None or n.b is None or n.a.kind != "block" or n.b.kind != "block":
                fail(self.w(n), "an `if` without `else` as a value is outside the translated subset (weekday functions)")
            pre, c, t = self.ex(n.c, env)
            if t != "bool":
                fail(self.w(n), "the condition is not a `bool`")
            return (pre + [f"if {c} then"] + ["  " + x for x in self.block_k(n.a.stmts, n.a.tail, env, k)] + ["else"]
                    + ["  " + x for x in self.block_k(n.b.stmts, n.b.tail, env, k)])
        if n.kind == "try":
            pre, a, t = self.ex(n.e, env)
            if t != ("opt", "date"):
                fail(self.w(n), "`?` on something that is not an `Option<NaiveDate>` (weekday functions)")
            v = self.fresh()
            return pre + [f"match {a} with", "| none => .ok none", f"| some {v} =>"] + ["  " + x for x in k(v, "date")]
        if (n.kind == "method" and n.name == "unwrap_or_else" and len(n.args) == 1 and n.args[0].kind == "thunk"
                and n.e.kind == "method" and n.e.name == "map" and len(n.e.args) == 1 and n.e.args[0].kind == "closure" and n.e.args[0].pat is not None):
            # `OPT.map(|x| e).unwrap_or_else(|| d)`: `match OPT with | some x => e | none => d` (both closures are evaluated lazily)
            pre, a, t = self.ex(n.e.e, env)
            if t != ("opt", "date"):
                fail(self.w(n), f"`.map(..).unwrap_or_else(..)` on a value of type {t} is outside the translated subset")
            cl = n.e.args[0]
            if cl.pat in env:
                fail(self.w(cl), f"the closure parameter `{cl.pat}` shadows a variable: outside the translated subset")
            env2 = dict(env)
            env2[cl.pat] = (lname(cl.pat), "date", False)
            p1, a1, t1 = self.ex(cl.e, env2)
            p2, a2, t2 = self.ex(n.args[0].e, env)
            if self.strip(t1) != "date" or self.strip(t2) != "date":
                fail(self.w(n), f"`.map(..).unwrap_or_else(..)`: the closures give {t1} / {t2}, expected dates")
            return (pre + [f"match {a} with", f"| some {lname(cl.pat)} =>"] + ["  " + x for x in p1 + k(a1, "date")]
                    + ["| none =>"] + ["  " + x for x in p2 + k(a2, "date")])
        pre, a, t = self.ex(n, env)
        return pre + k(a, t)

    def ex(self, n, env, want=None):
        if n.kind == "method" and n.name == "first_after" and len(n.args) == 1:
            pre, a, t = self.ex(n.e, env)
            if self.strip(t) != "cal":
                fail(self.w(n), f"`.first_after(..)` on a value of type {t} is outside the translated subset (weekday functions)")
            p2, b, t2 = self.ex(n.args[0], env)
            if self.strip(t2) != "date":
                fail(self.w(n), f"`calendar.first_after(..)` of a value of type {t2}")
            return pre + p2, f"({a}_first_after {b})", ("opt", "date")
        if n.kind == "method" and n.name == "date" and not n.args and n.e.kind == "var" and n.e.name == "DATE_END" and "DATE_END" not in env:
            mod, _, _, lean = CRATE_CONSTS["DATE_END"]
            if (mod, "DATE_END") not in self.uses:
                fail(self.w(n), f"`DATE_END` is read as `{mod}::DATE_END`, but the file does not import it from there")
            return [], lean, "date"
        return WeekDayGen.ex(self, n, env, want)

    def stmts(self, ss, tail, env):
        # an arm of `match self`: `None`, or `Some({ let calendar = match kind { .. }; .. })`
        if not ss and getattr(tail, "wd_marker", False):
            self.box["env"] = env
            return []
        if ss:
            fail(self.w(ss[0]), "statements in an arm of `match self` are outside the translated subset (`next_change_hint`)")
        if tail.kind == "none":
            return [".ok none"]
        if tail.kind != "some" or tail.e.kind != "blockexpr":
            fail(self.w(tail), "only `None` and `Some({ .. })` are translated arms of `next_change_hint` (weekday functions)")
        b = tail.e.b
        if not (b.stmts and b.stmts[0].kind == "let" and b.stmts[0].e.kind == "match"):
            fail(self.w(b), "the block inside `Some(..)` has to start with `let calendar = match kind { .. };`")
        s = b.stmts[0]
        marker = Node("unit", s.line, wd_marker=True)
        box = {}
        self.box = box
        head = WeekDayGen.stmts(self, [s], marker, env)  # the `let .. = match kind { .. }` form of `filter`; the rest comes back through the marker
        cal = lname(s.name)
        # the same selection for the second by-name parameter of the calendar (`first_after`)
        head2 = [head[0].replace(f"let {cal} : Int → Bool :=", f"let {cal}_first_after : Int → Option Int :=").replace("_contains", "_first_after")]
        return head + head2 + self.block_k(b.stmts[1:], b.tail, box["env"], self.k_some)


def weekday_hint_section(toks, raw):
    """the Lean text (lines) of `WeekDayRange::next_change_hint`"""
    if any(nm == "weekday" for nm, _ in SKIPPED_SECTIONS):
        fail(F_DF, "the section `weekday` (the types `WeekDayRange` / `HolidayKind`) was not translated in this run")
    tk = toks(F_DF)
    uses = file_uses(tk)
    datelike = ("chrono::prelude", "Datelike") in uses
    name = "next_change_hint"
    at = find_impl_fns(tk, F_DF, "WeekDayRange", None, [name], WD_HDR.split())[name]
    got = d3_sig_text(tk, at)
    if got.rstrip() != WD_HINT_SIG:
        fail(f"{F_DF}:{tk[at].line}", f"the signature of `WeekDayRange::{name}` changed: expected `{WD_HINT_SIG}`, found `{got}` (tables of the weekday extension)")
    p = WeekDayHintParser(tk, F_DF, {"WeekDayRange"}, uses=std_uses(tk), enums=set(), aliases={"ds"}, modelled=True, penums={"WeekDayRange", "HolidayKind"})
    p.i = at
    node = p.fn()
    (dname, _), (cname, _) = node.params
    g = WeekDayHintGen(F_DF, name, uses, datelike, dname, cname)
    m = node.body.tail
    if node.body.stmts or m.kind != "match" or m.scrut.kind != "self":
        fail(f"{F_DF}:{node.line}", f"`WeekDayRange::{name}` is translated as one `match self {{ .. }}` only")
    seen, arms_l = [], []
    for pat, body in m.arms:
        if pat.kind != "svariant" or pat.enum != "WeekDayRange" or pat.name not in WD_FIELDS or pat.name in seen or getattr(pat, "guard", None) is not None:
            fail(g.w(pat), "only the arms `ds::WeekDayRange::Fixed { .. }` / `ds::WeekDayRange::Holiday { .. }`, once each, are translated")
        seen.append(pat.name)
        env = {dname: (lname(dname), "date", False), cname: (lname(cname), "ctx", False)}
        binders = []
        given = dict(pat.fields)
        if any(f not in dict(WD_FIELDS[pat.name]) for f in given) or len(given) != len(pat.fields) or (len(given) != len(WD_FIELDS[pat.name]) and not pat.rest):
            fail(g.w(pat), f"the pattern of `{pat.name}` does not name the fields of the declaration")
        for f, ty in WD_FIELDS[pat.name]:
            sub = given.get(f)
            if sub is None or sub[0] == "wild":
                binders.append("_")
                continue
            if sub[0] != "bind" or sub[1] in env:
                fail(g.w(pat), f"field pattern of `{f}` is outside the translated subset (weekday functions)")
            env[sub[1]] = (lname(sub[1]), ("ref", ty), False)
            binders.append(lname(sub[1]))
        if body.kind != "block":
            fail(g.w(pat), "the arm is not a block")
        arms_l += [f"| .{pat.name} " + " ".join(binders) + " =>"] + ["  " + x for x in g.stmts(body.stmts, body.tail, env)]
    if sorted(seen) != ["Fixed", "Holiday"]:
        fail(g.w(m), "`match self` has to have the arms `Fixed` and `Holiday`")
    if g.loops or g.conts or g.recursive:
        fail(f"{F_DF}:{node.line}", f"`WeekDayRange::{name}`: a loop / a nested `return` / a recursive call here is outside the translated subset")
    L = ["/-! ### [weekday extension] `impl DateFilter for ds::WeekDayRange` `next_change_hint` (opening-hours/src/filter/date_filter.rs), chrono mode -/", "",
         "namespace WeekDayRange", "",
         f"/-- `<L> WeekDayRange::{name}(&self, {dname}: NaiveDate, {cname}: &Context<L>) -> Option<NaiveDate>` ({F_DF}:{node.line}); ext_X_contains / ext_X_first_after = "
         f"`{cname}.holidays.X.contains` / `.first_after`, by-name parameters (the calendars of the context are not translated here) -/",
         f"def {name} (self : WeekDayRange) ({lname(dname)} : Int) ({WD_EXT} : Int → Bool) (ext_public_first_after ext_school_first_after : Int → Option Int) : R (Option Int) :=",
         "  match self with"]
    L += ["  " + x for x in arms_l]
    L += ["", "end WeekDayRange", ""]
    return L
# ---- end of [weekday extension] ------------------------------------------------------------------

# ------------------------------------------------------------------------------------------------
# [timesel extension] eighth increment: the three predicates of the time selector that the eval2 section takes BY NAME
# (`TimeSelector::is_00_24`, `TimeSpan::fixed_range` of opening-hours-syntax/src/rules/time.rs; `<TimeSelector as
# TimeFilter>::is_immutable_full_day`, `<TimeSpan as TimeFilter>::is_immutable_full_day` of
# opening-hours/src/filter/time_filter.rs).  A self-contained small front end (own expression grammar and typed
# generator, region-local): `struct TimeSelector`, `struct TimeSpan`, `enum Time` are READ from their declarations
# (field types from the table TS_TYPES, `PartialEq` must be derived where `==` is used); `chrono::Duration` is the
# abstract type parameter `Dur` with decidable equality.  Accepted expressions: `self`, field access, `.len()`,
# `.first()`, `.iter().all(|x| ..)` (an auxiliary structural recursion `<fn>.all1`), `==`, `&&` (a calling right operand
# runs only when the left one is true), `&e` / `*e` (value semantics), `Some(e)` / `None` / `true` / `false` / integer
# literals, `a..b`, `Time::Fixed(e)`, `ExtendedTime::MIDNIGHT_nn` (the generated constants), `Self { f: e, .. }` with all
# fields, calls of the functions translated HERE (`Self::fixed_range`, `TimeSpan::fixed_range`,
# `span.is_immutable_full_day()`).  Anything else: an error naming file:line.
F_TS_TIME = "opening-hours-syntax/src/rules/time.rs"
F_TS_TF = "opening-hours/src/filter/time_filter.rs"
TS_TYPES = {  # declared field / parameter / result types (token texts joined by a blank) -> internal type
    "Vec < TimeSpan >": ("list", "Span"), "Range < Time >": ("range", "Time"), "bool": "bool",
    "Option < Duration >": ("opt", "Dur"), "ExtendedTime": "ET", "VariableTime": "VT", "Self": "Self", "& self": "Self",
}
TS_LEAN = {"Span": "TimeSpan Dur", "Sel": "TimeSelector Dur", "Time": "Time", "bool": "Bool", "ET": "ExtendedTime",
           "VT": "VariableTime", "Dur": "Dur", "usize": "Int"}
TS_CONSTS = ("MIDNIGHT_00", "MIDNIGHT_24", "MIDNIGHT_48")


def ts_lean_ty(t, top=True):
    if isinstance(t, tuple):
        s = {"list": "List", "opt": "Option", "range": "Range"}[t[0]] + " " + ts_lean_ty(t[1], False)
        return s if top else f"({s})"
    s = TS_LEAN[t]
    return s if top or " " not in s else f"({s})"


TS_LEAN_KEYWORDS = {"end", "from", "at", "in", "do", "then", "else", "if", "let", "have", "show", "fun", "by", "with", "open", "where", "deriving", "instance", "rest"}


def ts_name(x):
    """a Rust name that is a Lean keyword (or the `rest` of the auxiliary recursions) is quoted"""
    return f"«{x}»" if x in TS_LEAN_KEYWORDS and x != "rest" else ("rest_" if x == "rest" else x)


class TsParser:
    def __init__(self, toks, fname, i):
        self.toks, self.fname, self.i = toks, fname, i

    def peek(self, k=0):
        return self.toks[self.i + k]

    def where(self, tk=None):
        return f"{self.fname}:{(tk or self.peek()).line}"

    def eat(self, text):
        tk = self.peek()
        if tk.text != text:
            fail(self.where(tk), f"expected `{text}`, found `{tk.text}`: outside the translated subset [timesel]")
        self.i += 1
        return tk

    def ident(self):
        tk = self.peek()
        if tk.kind != "id":
            fail(self.where(tk), f"expected an identifier, found `{tk.text}` [timesel]")
        self.i += 1
        return tk

    def type_until(self, stops):
        out, depth = [], 0
        while True:
            tk = self.peek()
            if tk.kind == "eof":
                fail(self.where(tk), "unterminated type [timesel]")
            if depth == 0 and tk.text in stops:
                break
            if tk.text == "<":
                depth += 1
            elif tk.text == ">":
                depth -= 1
            out.append(tk.text)
            self.i += 1
        s = " ".join(out)
        if s not in TS_TYPES:
            fail(self.where(), f"type `{s}` is outside the translated subset [timesel]")
        return TS_TYPES[s]

    # expr := eq ('&&' eq)* ; eq := un ('==' un)? ; un := ('&'|'*') un | post ('..' post)?
    def expr(self):
        e = self.eq()
        while self.peek().text == "&&":
            tk = self.eat("&&")
            e = ("and", tk.line, e, self.eq())
        if self.peek().text in ("||", "!=", "<", ">", "<=", ">=", "+", "-", "?", "as"):
            fail(self.where(), f"operator `{self.peek().text}` is outside the translated subset [timesel]")
        return e

    def eq(self):
        a = self.rng()
        if self.peek().text == "==":
            tk = self.eat("==")
            return ("eq", tk.line, a, self.rng())
        return a

    def rng(self):
        a = self.un()
        if self.peek().text == "..":
            tk = self.eat("..")
            return ("range", tk.line, a, self.un())
        return a

    def un(self):
        tk = self.peek()
        if tk.text in ("&", "*"):
            self.i += 1
            return ("ref", tk.line, self.un())
        return self.post()

    def args(self):
        self.eat("(")
        out = []
        while self.peek().text != ")":
            out.append(self.expr())
            if self.peek().text != ")":
                self.eat(",")
        self.eat(")")
        return out

    def post(self):
        e = self.prim()
        while self.peek().text == ".":
            self.eat(".")
            name = self.ident()
            if self.peek().text == "(":
                if self.peek(1).text == "|":  # one closure argument `|x| e`
                    self.eat("(")
                    self.eat("|")
                    x = self.ident()
                    self.eat("|")
                    body = self.expr()
                    self.eat(")")
                    e = ("mclosure", name.line, e, name.text, x.text, body)
                else:
                    e = ("method", name.line, e, name.text, self.args())
            else:
                e = ("field", name.line, e, name.text)
        return e

    def prim(self):
        tk = self.peek()
        if tk.kind == "num":
            self.i += 1
            if not tk.text.isdigit():
                fail(self.where(tk), f"literal `{tk.text}` is outside the translated subset [timesel]")
            return ("num", tk.line, int(tk.text))
        if tk.text == "(":
            self.eat("(")
            e = self.expr()
            self.eat(")")
            return e
        if tk.kind != "id":
            fail(self.where(tk), f"`{tk.text}` is outside the translated subset [timesel]")
        self.i += 1
        if tk.text in ("true", "false", "None", "self"):
            return ("atom", tk.line, tk.text)
        if tk.text == "Some":
            a = self.args()
            if len(a) != 1:
                fail(self.where(tk), "`Some` takes one argument [timesel]")
            return ("some", tk.line, a[0])
        if self.peek().text == "::":
            self.eat("::")
            name = self.ident()
            if self.peek().text == "(":
                return ("pathcall", tk.line, tk.text, name.text, self.args())
            return ("path", tk.line, tk.text, name.text)
        if tk.text == "Self" and self.peek().text == "{":
            self.eat("{")
            fields = []
            while self.peek().text != "}":
                f = self.ident()
                self.eat(":")
                fields.append((f.text, self.expr()))
                if self.peek().text != "}":
                    self.eat(",")
            self.eat("}")
            return ("slit", tk.line, fields)
        return ("var", tk.line, tk.text)


class TsGen:
    """typed generator: `gen(e, env, want)` returns (bind lines, Lean atom, type); the binds run left to right"""

    def __init__(self, fname, selfty, structs, fns, lean_fn):
        self.fname, self.selfty, self.structs, self.fns, self.lean_fn = fname, selfty, structs, fns, lean_fn
        self.n, self.aux = 0, []

    def tmp(self):
        self.n += 1
        return f"tmp{self.n}"

    def err(self, line, msg):
        fail(f"{self.fname}:{line}", msg + ": outside the translated subset [timesel]")

    def call(self, line, key, args, env):
        if key not in self.fns:
            self.err(line, f"call of `{key[0]}::{key[1]}`, which is not translated")
        lname, ptys, rty = self.fns[key]
        if len(args) != len(ptys):
            self.err(line, f"`{key[1]}` takes {len(ptys)} argument(s)")
        binds, atoms = [], []
        for a, pt in zip(args, ptys):
            b, at, ty = self.gen(a, env, pt)
            if ty != pt:
                self.err(line, f"argument of type {ty}, expected {pt}")
            binds += b
            atoms.append(at)
        v = self.tmp()
        binds.append(f"bnd ({' '.join([lname] + atoms)}) fun {v} =>")
        return binds, v, rty

    def gen(self, e, env, want=None):
        k, line = e[0], e[1]
        if k == "atom":
            if e[2] in ("true", "false"):
                return [], e[2], "bool"
            if e[2] == "None":
                if not (isinstance(want, tuple) and want[0] == "opt"):
                    self.err(line, "`None` where the expected type is not known")
                return [], "none", want
            if "self" not in env:
                self.err(line, "`self` inside a closure")
            return [], "self", env["self"]
        if k == "var":
            if e[2] not in env:
                self.err(line, f"unknown name `{e[2]}`")
            return [], ts_name(e[2]), env[e[2]]
        if k == "num":
            return [], str(e[2]), "usize"
        if k == "ref":
            return self.gen(e[2], env, want)
        if k == "some":
            b, a, t = self.gen(e[2], env, want[1] if isinstance(want, tuple) and want[0] == "opt" else None)
            return b, f"(some {a})", ("opt", t)
        if k == "range":
            b1, a1, t1 = self.gen(e[2], env)
            b2, a2, t2 = self.gen(e[3], env, t1)
            if t1 != t2:
                self.err(line, f"`a..b` between {t1} and {t2}")
            return b1 + b2, f"(Range.mk {a1} {a2})", ("range", t1)
        if k == "field":
            b, a, t = self.gen(e[2], env)
            if t not in self.structs or e[3] not in dict(self.structs[t]):
                self.err(line, f"field `{e[3]}` of {t}")
            return b, f"{a}.{e[3]}", dict(self.structs[t])[e[3]]
        if k == "path":
            if e[2] == "ExtendedTime" and e[3] in TS_CONSTS:
                v = self.tmp()
                return [f"bnd (ExtendedTime.{e[3]}) fun {v} =>"], v, "ET"
            self.err(line, f"path `{e[2]}::{e[3]}`")
        if k == "pathcall":
            if e[2] == "Time" and e[3] in ("Fixed", "Variable") and len(e[4]) == 1:
                pt = {"Fixed": "ET", "Variable": "VT"}[e[3]]
                if (e[3], pt) not in self.structs["Time"]:
                    self.err(line, f"`Time::{e[3]}` is not declared with the payload {pt}")
                b, a, t = self.gen(e[4][0], env, pt)
                if t != pt:
                    self.err(line, f"`Time::{e[3]}` applied to {t}")
                return b, f"(Time.{e[3]} {a})", "Time"
            ty = self.selfty if e[2] == "Self" else {"TimeSpan": "Span", "TimeSelector": "Sel"}.get(e[2])
            return self.call(line, (ty, e[3]), e[4], env)
        if k == "method":
            b, a, t = self.gen(e[2], env)
            if e[3] == "len" and not e[4] and isinstance(t, tuple) and t[0] == "list":
                return b, f"(Int.ofNat (List.length {a}))", "usize"
            if e[3] == "first" and not e[4] and isinstance(t, tuple) and t[0] == "list":
                return b, f"(List.head? {a})", ("opt", t[1])
            if e[3] == "iter" and not e[4] and isinstance(t, tuple) and t[0] == "list":
                return b, a, ("iter", t[1])
            if (t, e[3]) in self.fns and t in ("Span", "Sel"):
                b2, v, rty = self.call(line, (t, e[3]), e[4], env)
                lname = self.fns[(t, e[3])][0]
                b2[-1] = b2[-1].replace(f"bnd ({lname}", f"bnd ({lname} {a}", 1)
                return b + b2, v, rty
            self.err(line, f"method `.{e[3]}()` on {t}")
        if k == "mclosure":
            b, a, t = self.gen(e[2], env)
            if e[3] != "all" or not (isinstance(t, tuple) and t[0] == "iter"):
                self.err(line, f"adaptor `.{e[3]}(|{e[4]}| ..)` on {t}")
            bb, ba, bt = self.gen(e[5], {e[4]: t[1]}, "bool")  # the closure captures nothing
            if bt != "bool":
                self.err(line, "the closure of `.all(..)` must return bool")
            name = f"{self.lean_fn}.all{len(self.aux) + 1}"
            self.aux.append((name, e[4], t[1], bb, ba, line))
            v = self.tmp()
            return b + [f"bnd ({name} {a}) fun {v} =>"], v, "bool"
        if k == "eq":
            b1, a1, t1 = self.gen(e[2], env)
            b2, a2, t2 = self.gen(e[3], env, t1)
            if t1 != t2:
                self.err(line, f"`==` between {t1} and {t2}")
            base = t1
            while isinstance(base, tuple) and base[0] in ("opt", "list", "range"):
                base = base[1]
            if base not in ("usize", "bool", "ET", "Time") and base not in self.peq:
                self.err(line, f"`==` on {t1}: `PartialEq` is not derived on its declaration")
            return b1 + b2, f"(decide ({a1} = {a2}))", "bool"
        if k == "and":
            b1, a1, t1 = self.gen(e[2], env, "bool")
            b2, a2, t2 = self.gen(e[3], env, "bool")
            if t1 != "bool" or t2 != "bool":
                self.err(line, "`&&` on non-booleans")
            if not b2:
                return b1, f"({a1} && {a2})", "bool"
            v = self.tmp()  # the right operand runs only when the left one is true
            inner = "\n".join("    " + x for x in b2 + [f".ok {a2}"])
            return b1 + [f"bnd (if {a1} then\n{inner}\n  else .ok false) fun {v} =>"], v, "bool"
        if k == "slit":
            decl = self.structs[self.selfty]
            if [f for f, _ in e[2]] != [f for f, _ in decl]:
                self.err(line, "`Self { .. }` must give every field in declaration order")
            binds, parts = [], []
            for (f, fe), (_, ft) in zip(e[2], decl):
                b, a, t = self.gen(fe, env, ft)
                if t != ft:
                    self.err(line, f"field `{f}`: {t}, declared {ft}")
                binds += b
                parts.append(f"{f} := {a}")
            return binds, "{ " + ", ".join(parts) + " : " + TS_LEAN[self.selfty] + " }", self.selfty
        self.err(line, f"expression `{k}`")


def ts_read_struct(raw, fname, name):
    """`#[derive(..)] pub struct NAME { pub f: T, .. }` -> (fields, derives, line)"""
    for i, tk in enumerate(raw):
        if tk.text == "struct" and raw[i + 1].text == name and raw[i + 2].text == "{":
            p = TsParser(raw, fname, i + 3)
            fields = []
            while p.peek().text != "}":
                if p.peek().text == "pub":
                    p.eat("pub")
                f = p.ident()
                p.eat(":")
                fields.append((f.text, p.type_until((",", "}"))))
                if p.peek().text != "}":
                    p.eat(",")
            return fields, ts_derives(raw, i, fname), tk.line
    fail(fname, f"`struct {name} {{` not found [timesel]")


def ts_derives(raw, i, fname):
    j = i - 1
    if raw[j].text == "pub":
        j -= 1
    if raw[j].text != "]":
        return set()
    k = j
    while raw[k].text != "#":
        k -= 1
        if k < 0:
            fail(f"{fname}:{raw[i].line}", "attribute [timesel]")
    texts = [t.text for t in raw[k:j]]
    return {t for t in texts[4:] if t not in (",", "(", ")")} if texts[:3] == ["#", "[", "derive"] else set()


def ts_read_enum_time(raw, fname):
    for i, tk in enumerate(raw):
        if tk.text == "enum" and raw[i + 1].text == "Time" and raw[i + 2].text == "{":
            p = TsParser(raw, fname, i + 3)
            vs = []
            while p.peek().text != "}":
                v = p.ident()
                p.eat("(")
                vs.append((v.text, p.type_until((")",))))
                p.eat(")")
                if p.peek().text != "}":
                    p.eat(",")
            if "PartialEq" not in ts_derives(raw, i, fname):
                fail(f"{fname}:{tk.line}", "`enum Time` does not derive PartialEq [timesel]")
            return vs, tk.line
    fail(fname, "`enum Time {` not found [timesel]")


def ts_fn(toks, fname, idx, selfty, structs, peq, fns, lean_ns, doc):
    """translate the `fn` at token idx; returns (lines, signature entry)"""
    p = TsParser(toks, fname, idx)
    line = p.eat("fn").line
    name = p.ident().text
    p.eat("(")
    params, env = [], {}
    while p.peek().text != ")":
        if p.peek().text == "&":
            p.eat("&")
            p.eat("self")
            params.append(("self", selfty))
        else:
            x = p.ident()
            p.eat(":")
            t = p.type_until((",", ")"))
            params.append((x.text, selfty if t == "Self" else t))
        if p.peek().text != ")":
            p.eat(",")
    p.eat(")")
    p.eat("->")
    rty = p.type_until(("{",))
    rty = selfty if rty == "Self" else rty
    p.eat("{")
    body = p.expr()
    if p.peek().text != "}":
        fail(p.where(), f"`{p.peek().text}`: the body must be one tail expression [timesel]")
    env = dict(params)
    lean_fn = f"{lean_ns}.{name}"
    g = TsGen(fname, selfty, structs, fns, lean_fn)
    g.peq = peq
    binds, atom, t = g.gen(body, env, rty)
    if t != rty:
        fail(f"{fname}:{line}", f"`{name}` returns {t}, declared {rty} [timesel]")
    L = []
    for an, x, xt, bb, ba, aline in g.aux:
        L.append(f"/-- the adaptor `.all(|{x}| ..)` of `{name}` ({fname}:{aline}): std's `Iterator::all` stops at the first `false` -/")
        L.append(f"def {an} : List {ts_lean_ty(xt, False)} → R Bool")
        L.append("  | [] => .ok true")
        L.append(f"  | {ts_name(x)} :: rest =>")
        L += ["    " + y for y in bb]
        L.append(f"    if {ba} then {an} rest else .ok false")
        L.append("")
    rparams = ["self" if x == "self" else x for x, _ in params]
    binder = " ".join(f"({ts_name(x)} : {ts_lean_ty(t_)})" for x, t_ in params)
    L.append(f"/-- `{doc}::{name}` ({fname}:{line}) -/")
    L.append(f"def {lean_fn} {binder} : R {ts_lean_ty(rty, False)} :=")
    L += ["  " + y for y in binds]
    L.append(f"  .ok {atom}")
    L.append("")
    return L, (lean_fn, [t_ for x, t_ in params if x != "self"], rty)


def timesel_section(toks):
    raw = toks.raw(F_TS_TIME)
    st = toks(F_TS_TIME)
    tf = toks(F_TS_TF)
    use = ["use", "opening_hours_syntax", "::", "rules", "::", "time", "as", "ts", ";"]
    if not any([t.text for t in tf[i:i + len(use)]] == use for i in range(len(tf) - len(use))):
        fail(F_TS_TF, "`use opening_hours_syntax::rules::time as ts;` not found [timesel]")
    sel_fields, sel_der, sel_line = ts_read_struct(raw, F_TS_TIME, "TimeSelector")
    span_fields, span_der, span_line = ts_read_struct(raw, F_TS_TIME, "TimeSpan")
    variants, time_line = ts_read_enum_time(raw, F_TS_TIME)
    structs = {"Sel": sel_fields, "Span": span_fields, "Time": variants}
    peq = {n for n, d in (("Sel", sel_der), ("Span", span_der)) if "PartialEq" in d}
    L = ["-- [timesel extension] eighth increment: the predicates of the time selector (notes/RS2LEAN8-timesel.md)", "namespace TimeSel", ""]
    L.append(f"/-- `enum Time` ({F_TS_TIME}:{time_line}), `#[derive(PartialEq, Eq)]` -/")
    L.append("inductive Time")
    for v, t in variants:
        L.append(f"  | {v} (a : {ts_lean_ty(t)})")
    L += ["  deriving DecidableEq, Repr", ""]
    for nm, fields, ln, der in (("TimeSpan", span_fields, span_line, span_der), ("TimeSelector", sel_fields, sel_line, sel_der)):
        L.append(f"/-- `struct {nm}` ({F_TS_TIME}:{ln}); `Dur` = `chrono::Duration`, abstract -/")
        L.append(f"structure {nm} (Dur : Type) where")
        for f, t in fields:
            L.append(f"  {f} : {ts_lean_ty(t)}")
        L += ["  deriving DecidableEq" if "PartialEq" in der else "", ""]
    L += ["variable {Dur : Type} [DecidableEq Dur]", ""]
    fns = {}
    i0 = find_impl_fns(st, F_TS_TIME, "TimeSpan", None, ["fixed_range"])["fixed_range"]
    l, sig = ts_fn(st, F_TS_TIME, i0, "Span", structs, peq, fns, "TimeSpan", "TimeSpan")
    L += l
    fns[("Span", "fixed_range")] = sig
    i1 = find_impl_fns(tf, F_TS_TF, "ts::TimeSpan", None, ["is_immutable_full_day"], header=["impl", "TimeFilter", "for", "ts", "::", "TimeSpan"])["is_immutable_full_day"]
    l, sig = ts_fn(tf, F_TS_TF, i1, "Span", structs, peq, fns, "TimeSpan", "<TimeSpan as TimeFilter>")
    L += l
    fns[("Span", "is_immutable_full_day")] = sig
    i2 = find_impl_fns(tf, F_TS_TF, "ts::TimeSelector", None, ["is_immutable_full_day"], header=["impl", "TimeFilter", "for", "ts", "::", "TimeSelector"])["is_immutable_full_day"]
    l, sig = ts_fn(tf, F_TS_TF, i2, "Sel", structs, peq, fns, "TimeSelector", "<TimeSelector as TimeFilter>")
    L += l
    i3 = find_impl_fns(st, F_TS_TIME, "TimeSelector", None, ["is_00_24"])["is_00_24"]
    l, sig = ts_fn(st, F_TS_TIME, i3, "Sel", structs, peq, fns, "TimeSelector", "TimeSelector")
    L += l
    L += ["end TimeSel", ""]
    return L
# ---- end of the [timesel extension] ---------------------------------------------------------------------------------

def main(argv):
    repo, out, overrides = REPO, OUT, {}
    i = 0
    while i < len(argv):
        a = argv[i]
        if a == "--repo":
            repo = argv[i + 1]
            i += 2
        elif a == "--out":
            out = argv[i + 1]
            i += 2
        elif a == "--override":
            rel, _, p = argv[i + 1].partition("=")
            if not p:
                print("rs2lean: --override REL=FILE", file=sys.stderr)
                return 2
            overrides[rel] = p
            i += 2
        else:
            print(__doc__, file=sys.stderr)
            return 2
    # The main pipeline is one unit, but a construct outside the subset in ONE source file must not take the tie of the
    # functions of the OTHER files with it: when it fails on `<file>:<line>: ..`, the run is repeated without the targets
    # (and type declarations) of that file — what calls into them fails in turn and is left out the same way.  The
    # theorems about what was left out stop building (their properties report it); the others are checked against the
    # current source as before.  When nothing is left to leave out the translator fails as a whole.
    excluded, left_out, text = set(), [], None
    for _ in range(len(MAIN_FILES) + 1):
        EXCLUDED_FILES.clear()
        EXCLUDED_FILES.update(excluded)
        del SKIPPED_SECTIONS[:]
        try:
            text = translate(repo, overrides)
            break
        except Fail as ex:
            rel = str(ex).split(":", 1)[0].strip()
            if rel in MAIN_FILES and rel not in excluded:
                excluded.add(rel)
                left_out.append((rel, str(ex)))
                continue
            print(f"rs2lean: {left_out[0][1] if left_out else ex}", file=sys.stderr)
            return 1
        except Exception as ex:  # a table that expects something that was left out
            if not left_out:
                raise
            print(f"rs2lean: {left_out[0][1]} (then, without that file: {type(ex).__name__}: {ex})", file=sys.stderr)
            return 1
    if text is None:
        print(f"rs2lean: {left_out[0][1]}", file=sys.stderr)
        return 1
    if left_out:
        text = "".join(f"-- [main pipeline] the targets of {rel} are NOT TRANSLATED in this run: {msg}\n" for rel, msg in left_out) + text
        SKIPPED_SECTIONS[:0] = [(f"main pipeline: {rel}", msg) for rel, msg in left_out]
    old = open(out, encoding="utf-8").read() if os.path.exists(out) else None
    if old != text:
        os.makedirs(os.path.dirname(out), exist_ok=True)
        with open(out, "w", encoding="utf-8") as f:
            f.write(text)
        print(f"rs2lean: wrote {out}")
    else:
        print(f"rs2lean: {out} unchanged")
    for name, msg in SKIPPED_SECTIONS:
        print(f"rs2lean: section [{name}] NOT TRANSLATED: {msg}")
    return 0


if __name__ == "__main__":
    sys.exit(main(sys.argv[1:]))
