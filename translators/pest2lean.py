#!/usr/bin/env python3
"""
grammar.pest -> lean/OH/Generated/Grammar.lean  (tie 1, DESIGN §2.2)

One closed `PExpr PRule` term per pest rule, in dependency order, plus the enumeration `PRule` of the
non-silent rule names (and `EOI`).  Exactly the pest subset used by the grammar is understood:
strings, 'a'..'b', `~`, `|`, `?`, `*`, `+`, `{n}`, `!`, `&`, parentheses, the built-ins SOI, EOI,
ANY, ASCII_DIGIT, ASCII_NONZERO_DIGIT and the rule modifiers `_` (silent) and `@` (atomic).
Anything else (other modifiers, `^"..."`, PUSH/POP, WHITESPACE/COMMENT rules, recursion, a nullable
starred body, SOI anywhere but at the head of the entry rule) is an ERROR = a broken tie.

The file is rewritten only when its content changes (keeps `lake build` incremental).
"""
import os
import re
import sys

VERIF = os.path.dirname(os.path.dirname(os.path.abspath(__file__)))
REPO = os.environ.get("VERIF_REPO", "/repo")
SRC = os.path.join(REPO, "opening-hours-syntax/src/grammar.pest")
OUT = os.path.join(VERIF, "lean/OH/Generated/Grammar.lean")
ENTRY = "input_opening_hours"
BUILTIN = {"SOI", "EOI", "ANY", "ASCII_DIGIT", "ASCII_NONZERO_DIGIT"}


def die(msg):
    print(f"pest2lean: {msg}", file=sys.stderr)
    sys.exit(1)


TOK = re.compile(
    r"""
  (?P<ws>\s+|//[^\n]*) |
  (?P<str>"(?:[^"\\]|\\.)*") |
  (?P<chr>'(?:[^'\\]|\\.)') |
  (?P<id>[A-Za-z_][A-Za-z0-9_]*) |
  (?P<num>\d+) |
  (?P<op>\.\.|[={}()|~?*+!&@$^,\[\]#<>-])
""",
    re.X,
)


def unescape(body):
    out = []
    i = 0
    while i < len(body):
        c = body[i]
        if c == "\\":
            i += 1
            e = body[i]
            m = {"n": "\n", "r": "\r", "t": "\t", "\\": "\\", '"': '"', "'": "'", "0": "\0"}
            if e not in m:
                die(f"unsupported escape \\{e}")
            out.append(m[e])
        else:
            out.append(c)
        i += 1
    return "".join(out)


def tokenize(src):
    toks, pos = [], 0
    while pos < len(src):
        m = TOK.match(src, pos)
        if not m:
            die(f"unknown construct at offset {pos}: {src[pos:pos+30]!r}")
        pos = m.end()
        if m.lastgroup != "ws":
            toks.append((m.lastgroup, m.group()))
    return toks


class Parser:
    def __init__(self, toks):
        self.t = toks
        self.i = 0

    def peek(self):
        return self.t[self.i] if self.i < len(self.t) else (None, None)

    def nxt(self):
        t = self.t[self.i]
        self.i += 1
        return t

    def expect(self, v):
        t = self.nxt()
        if t[1] != v:
            die(f"expected {v!r}, found {t[1]!r}")

    def alt(self):
        if self.peek()[1] == "|":
            self.nxt()
        xs = [self.seq()]
        while self.peek()[1] == "|":
            self.nxt()
            xs.append(self.seq())
        # ordered choice is associative: `(a | b) | c` and `a | (b | c)` are flattened to one list, so
        # that redundant parentheses in grammar.pest do not change the generated term
        xs = [y for x in xs for y in (x[1] if x[0] == "alt" else [x])]
        return xs[0] if len(xs) == 1 else ("alt", xs)

    def seq(self):
        xs = [self.prefix()]
        while self.peek()[1] == "~":
            self.nxt()
            xs.append(self.prefix())
        # sequence is associative as well (same input consumed, same pairs in the same order)
        xs = [y for x in xs for y in (x[1] if x[0] == "seq" else [x])]
        return xs[0] if len(xs) == 1 else ("seq", xs)

    def prefix(self):
        if self.peek()[1] == "!":
            self.nxt()
            return ("not", self.prefix())
        if self.peek()[1] == "&":
            self.nxt()
            return ("and", self.prefix())
        return self.postfix()

    def postfix(self):
        e = self.atom()
        while True:
            t = self.peek()[1]
            if t == "?":
                self.nxt()
                e = ("opt", e)
            elif t == "*":
                self.nxt()
                e = ("star", e)
            elif t == "+":
                self.nxt()
                e = ("plus", e)
            elif t == "{":
                self.nxt()
                n = self.nxt()
                if n[0] != "num":
                    die(f"unsupported repetition {{{n[1]}…}} (only {{n}} is understood)")
                self.expect("}")
                e = ("rep", int(n[1]), e)
            else:
                return e

    def atom(self):
        k, v = self.nxt()
        if k == "str":
            return ("str", unescape(v[1:-1]))
        if k == "chr":
            if self.peek()[1] != "..":
                die("a character literal outside a range")
            self.nxt()
            k2, v2 = self.nxt()
            if k2 != "chr":
                die("malformed character range")
            return ("range", unescape(v[1:-1]), unescape(v2[1:-1]))
        if k == "id":
            if v in ("PUSH", "POP", "PEEK", "DROP", "PEEK_ALL", "POP_ALL"):
                die(f"stack operation {v} is not understood")
            return ("ref", v)
        if v == "(":
            e = self.alt()
            self.expect(")")
            return e
        die(f"unexpected token {v!r}")

    def rules(self):
        rules, order = {}, []
        while self.i < len(self.t):
            k, name = self.nxt()
            if k != "id":
                die(f"rule name expected, found {name!r}")
            self.expect("=")
            mod = ""
            if self.peek()[1] in ("_", "@", "$", "!"):
                mod = self.nxt()[1]
            if mod not in ("", "_", "@"):
                die(f"rule modifier {mod!r} of {name} is not understood")
            self.expect("{")
            body = self.alt()
            self.expect("}")
            if name in rules:
                die(f"rule {name} defined twice")
            if name in BUILTIN or name in ("WHITESPACE", "COMMENT"):
                die(f"special rule {name} is not understood (implicit whitespace is not modelled)")
            rules[name] = (mod, body)
            order.append(name)
        return rules, order


def refs(e, acc):
    if e[0] == "ref":
        acc.add(e[1])
    elif e[0] in ("alt", "seq"):
        for x in e[1]:
            refs(x, acc)
    elif e[0] in ("not", "and", "opt", "star", "plus"):
        refs(e[1], acc)
    elif e[0] == "rep":
        refs(e[2], acc)
    return acc


def lean_char(c):
    if c == "'":
        return "'\\''"
    if c == "\\":
        return "'\\\\'"
    if c == "\n":
        return "'\\n'"
    if c == "\t":
        return "'\\t'"
    if c == "\r":
        return "'\\r'"
    if ord(c) < 0x20 or ord(c) == 0x7F:
        return f"(Char.ofNat {ord(c)})"
    return f"'{c}'"


def lean_str(s):
    return "[" + ", ".join(lean_char(c) for c in s) + "]"


def emit(e, rules):
    k = e[0]
    if k == "str":
        return f"(.str {lean_str(e[1])})"
    if k == "range":
        return f"(.range {lean_char(e[1])} {lean_char(e[2])})"
    if k == "ref":
        n = e[1]
        if n == "ANY":
            return ".any"
        if n == "SOI":
            return ".soi"
        if n == "EOI":
            return "(.rule .EOI true .eoi)"
        if n == "ASCII_DIGIT":
            return "(.range '0' '9')"
        if n == "ASCII_NONZERO_DIGIT":
            return "(.range '1' '9')"
        return f"g_{n}"
    if k == "seq":
        xs = [emit(x, rules) for x in e[1]]
        out = xs[-1]
        for x in reversed(xs[:-1]):
            out = f"(.seq {x} {out})"
        return out
    if k == "alt":
        xs = [emit(x, rules) for x in e[1]]
        out = xs[-1]
        for x in reversed(xs[:-1]):
            out = f"(.alt {x} {out})"
        return out
    if k == "opt":
        return f"(.opt {emit(e[1], rules)})"
    if k == "star":
        return f"(.star {emit(e[1], rules)})"
    if k == "plus":
        return f"(PExpr.plus {emit(e[1], rules)})"
    if k == "rep":
        return f"(PExpr.rep {emit(e[2], rules)} {e[1]})"
    if k == "not":
        return f"(.notp {emit(e[1], rules)})"
    if k == "and":
        return f"(.andp {emit(e[1], rules)})"
    die(f"internal: {k}")


def main():
    src = open(SRC, encoding="utf-8").read()
    rules, order = Parser(tokenize(src)).rules()
    if ENTRY not in rules:
        die(f"entry rule {ENTRY} not found")
    deps = {n: refs(b, set()) for n, (m, b) in rules.items()}
    for n, d in deps.items():
        for r in d:
            if r not in rules and r not in BUILTIN:
                die(f"rule {n} refers to undefined rule {r}")
    # SOI only at the head of the entry rule
    for n, (m, b) in rules.items():
        uses_soi = "SOI" in deps[n]
        if uses_soi:
            ok = n == ENTRY and b[0] == "seq" and b[1][0] == ("ref", "SOI") and "SOI" not in refs(("seq", b[1][1:]), set())
            if not ok:
                die(f"SOI used outside the head of the entry rule (in {n})")
    # topological order (the grammar must not be recursive)
    state, topo = {}, []

    def visit(n, stack):
        if n in BUILTIN or state.get(n) == 2:
            return
        if state.get(n) == 1:
            die("recursive grammar: " + " -> ".join(stack + [n]))
        state[n] = 1
        for d in sorted(deps[n]):
            visit(d, stack + [n])
        state[n] = 2
        topo.append(n)

    # the order of the DEFINITIONS in grammar.pest is immaterial to pest (apart from the order in
    # which error messages list the expected rules): constructors and definitions are emitted in a
    # canonical order — the entry rule first, then alphabetical — so that moving a definition in
    # the file leaves the generated module unchanged
    canon = [ENTRY] + sorted(n for n in order if n != ENTRY)
    for n in canon:
        visit(n, [])

    named = [n for n in canon if rules[n][0] != "_"]
    L = []
    L.append("/-")
    L.append("GENERATED by translators/pest2lean.py from opening-hours-syntax/src/grammar.pest — do not edit.")
    L.append("Regenerated on every run of check.py; theorems that unfold these constants are re-checked")
    L.append("against what the grammar says now.")
    L.append("-/")
    L.append("import OH.Model.Peg")
    L.append("namespace OH.Generated.Grammar")
    L.append("open OH.Model.Peg")
    L.append("")
    L.append("/-- the non-silent rules of grammar.pest (pest's `enum Rule`), plus the built-in `EOI` -/")
    L.append("inductive PRule where")
    L.append("  | EOI")
    for n in named:
        L.append(f"  | {n}")
    L.append("  deriving DecidableEq, Repr, Inhabited")
    L.append("")
    L.append("def PRule.name : PRule → String")
    L.append('  | .EOI => "EOI"')
    for n in named:
        L.append(f'  | .{n} => "{n}"')
    L.append("")
    L.append("abbrev G := PExpr PRule")
    L.append("")
    for n in topo:
        mod, body = rules[n]
        b = emit(body, rules)
        if mod == "_":
            L.append(f"/-- silent rule `{n}` (inlined: produces no pair of its own) -/")
            L.append(f"def g_{n} : G := {b}")
        else:
            atomic = "true" if mod == "@" else "false"
            L.append(f"def g_{n} : G := .rule .{n} {atomic} {b}")
        L.append("")
    L.append(f"def entry : G := g_{ENTRY}")
    L.append("")
    L.append("/-- pest's validation that no repetition has a body that can succeed without consuming -/")
    L.append("theorem entry_stars_progress : entry.starsProgress = true := by decide")
    L.append("")
    L.append(f"def ruleCount : Nat := {len(rules)}")
    L.append("")
    L.append("end OH.Generated.Grammar")
    text = "\n".join(L) + "\n"
    old = None
    if os.path.exists(OUT):
        old = open(OUT, encoding="utf-8").read()
    if old != text:
        os.makedirs(os.path.dirname(OUT), exist_ok=True)
        with open(OUT, "w", encoding="utf-8") as f:
            f.write(text)
        print(f"pest2lean: wrote {OUT} ({len(rules)} rules, {len(named)} named)")
    else:
        print(f"pest2lean: {OUT} unchanged ({len(rules)} rules)")


if __name__ == "__main__":
    main()
