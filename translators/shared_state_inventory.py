#!/usr/bin/env python3
"""shared_state_inventory.py — inventory of everything in the non-test sources of the four crates
that could make an evaluation depend on something else than (expression, context, instant).

Input  : /repo                                                     (override: argv[1])
Output : <script dir>/../lean/OH/Generated/SharedState.lean        (override: argv[2])

What is scanned: every `*.rs` file under
    <repo>/compact-calendar/src  <repo>/opening-hours-syntax/src  <repo>/opening-hours/src
    <repo>/opening-hours-py/src
except: directories named `tests`, `benches`, `fuzz`, `examples`, `target`; the developer tool
`opening-hours-py/src/bin/stub_gen.rs`; every item under a `#[cfg(test)]` attribute.  (`build.rs`
runs at build time and is not part of the library: not scanned; `fuzz/` is a separate crate.)

How: a small Rust lexer removes comments, string/char literals (raw strings included) and lifetimes
(`'static` is not the keyword `static`), then the token stream is matched against PATTERNS below.
`use` declarations are skipped (an import is not a state; any use of the imported name is matched).
A `static` declaration is ONE entry (its type decides the kind; its initialiser is not matched
again).  For each entry the innermost enclosing `fn` is recorded as its *scope* (`mod` at module
level): a function-local `static` cannot be named outside that function's body, which is what ties
each cell of the model to the API function that may force it.

Entry = (file relative to the repository, identifier, kind, scope).  Kinds:
    static-LazyLock / static-OnceLock / static-Once / static-Atomic / static-Mutex / static-RwLock /
    static-mut / static-other / thread-local-static      a `static` item (process- or thread-wide)
    use-<Name>             any other occurrence of LazyLock, OnceLock, OnceCell, Once, Cell, RefCell,
                           UnsafeCell, Mutex, RwLock, Condvar, Atomic*, thread_local, lazy_static
    type-named-<Name>      the file itself defines a type with one of those names (then occurrences
                           of the name in that file refer to it and are not listed again)
    rust-UNSAFE            keyword `unsafe` (written in upper case in the output: the Lean tree is scanned
                           for the lower-case word as a forbidden *Lean* construct)
    log-call               `log::<level>!`
    logger-init            `pyo3_log::init`
    clock                  `<X>::now`
    env                    `env::var*` / `env::args*`
    hash-container         `HashMap`, `HashSet`, `RandomState`, `DefaultHasher`, `hash_map`, `hash_set`,
                           `BuildHasher` (iteration order depends on a per-instance random state)
    ambient-input          `SystemTime`, `Instant`, `thread_rng`, `getrandom`, `OsRng`, `ThreadId`,
                           `available_parallelism`, `hostname`, `temp_dir`, `current_dir`, `current_exe`, `process`
    arc-identity           `ptr_eq`, `as_ptr`, `make_mut`, `Arc::get_mut`, `strong_count`, `weak_count`,
                           `into_raw`, `from_raw`
    pyclass-mutable        `#[pyclass…]` without `frozen` (identifier = the struct's name)

No judgement is made here: the list is emitted as it stands and `OH.Props.C18.inventory_matches`
decides that it equals the list the model knows (`OH.Model.Purity.knownInventory`), so any new
item breaks the Lean build = a broken tie to be looked at.

The output is rewritten only when its content changes.  Python standard library only.
"""
import os
import re
import sys

HERE = os.path.dirname(os.path.abspath(__file__))
DEFAULT_REPO = os.environ.get("VERIF_REPO", "/repo")
DEFAULT_OUT = os.path.normpath(os.path.join(HERE, "..", "lean", "OH", "Generated", "SharedState.lean"))

CRATE_DIRS = ["compact-calendar/src", "opening-hours-syntax/src", "opening-hours/src", "opening-hours-py/src"]
SKIP_DIRS = {"tests", "benches", "fuzz", "examples", "target"}
SKIP_FILES = {"opening-hours-py/src/bin/stub_gen.rs"}

STATE_NAMES = {"LazyLock", "OnceLock", "OnceCell", "Once", "Cell", "RefCell", "UnsafeCell", "Mutex", "RwLock",
               "Condvar", "thread_local", "lazy_static", "LazyCell"}
# containers whose ITERATION ORDER depends on a per-instance random state (std's RandomState): looking a
# key up is a function of the content, iterating is not; every occurrence outside a `use` declaration
# and outside the type of a `static` item is listed (kind hash-container)
HASH_NAMES = {"HashMap", "HashSet", "RandomState", "DefaultHasher", "hash_map", "hash_set", "BuildHasher"}
# other ambient inputs: clocks, randomness, the identity of the running thread, the machine
AMBIENT_NAMES = {"SystemTime", "Instant", "thread_rng", "getrandom", "OsRng", "ThreadId", "available_parallelism",
                 "hostname", "temp_dir", "current_dir", "current_exe", "process"}
ARC_IDENTITY = {"ptr_eq", "as_ptr", "make_mut", "strong_count", "weak_count", "into_raw", "from_raw"}
LOG_LEVELS = {"error", "warn", "info", "debug", "trace", "log"}


class ScanError(Exception):
    pass


def lex(text, path):
    """Rust source -> list of tokens (identifiers/keywords/numbers as words, punctuation one char each);
    comments, literals and lifetimes removed."""
    toks = []
    i, n = 0, len(text)
    while i < n:
        c = text[i]
        if c.isspace():
            i += 1
        elif text.startswith("//", i):
            j = text.find("\n", i)
            i = n if j < 0 else j
        elif text.startswith("/*", i):
            depth, i = 1, i + 2
            while i < n and depth > 0:
                if text.startswith("/*", i):
                    depth, i = depth + 1, i + 2
                elif text.startswith("*/", i):
                    depth, i = depth - 1, i + 2
                else:
                    i += 1
            if depth:
                raise ScanError(f"{path}: unterminated block comment")
        elif c == '"' or (c in "bc" and text.startswith('"', i + 1)):
            i = text.index('"', i) + 1
            while i < n and text[i] != '"':
                i += 2 if text[i] == "\\" else 1
            if i >= n:
                raise ScanError(f"{path}: unterminated string literal")
            i += 1
            toks.append('""')
        elif (m := re.compile(r'b?r(#*)"').match(text, i)) and (i == 0 or not (text[i - 1].isalnum() or text[i - 1] == "_")):
            close = '"' + m.group(1)
            j = text.find(close, m.end())
            if j < 0:
                raise ScanError(f"{path}: unterminated raw string")
            i = j + len(close)
            toks.append('""')
        elif c == "'":
            # char literal or lifetime
            m = re.compile(r"'(\\.[^']*|[^'\\])'").match(text, i)
            if m:
                i = m.end()
                toks.append("''")
            else:
                m = re.compile(r"'[A-Za-z_][A-Za-z0-9_]*").match(text, i)
                if not m:
                    raise ScanError(f"{path}: stray quote at offset {i}")
                i = m.end()  # lifetime: dropped
        elif c.isalnum() or c == "_":
            m = re.compile(r"[A-Za-z0-9_]+").match(text, i)
            toks.append(m.group(0))
            i = m.end()
        else:
            toks.append(c)
            i += 1
    return toks


def skip_item(toks, i):
    """index just after the item starting at toks[i] (after its attributes): up to the first `;` outside
    braces or to the brace closing the first `{` opened"""
    depth = 0
    while i < len(toks):
        t = toks[i]
        if t in "([":
            depth += 1
        elif t in ")]":
            depth -= 1
        elif t == ";" and depth == 0:
            return i + 1
        elif t == "{":
            b = 1
            i += 1
            while i < len(toks) and b > 0:
                b += {"{": 1, "}": -1}.get(toks[i], 0)
                i += 1
            return i
        i += 1
    return i


def attribute_end(toks, i):
    """toks[i] == '#': index just after the closing `]` of the attribute"""
    j = i + 1
    if j < len(toks) and toks[j] == "!":
        j += 1
    if j >= len(toks) or toks[j] != "[":
        return i + 1
    d = 0
    while j < len(toks):
        d += {"[": 1, "]": -1}.get(toks[j], 0)
        j += 1
        if d == 0:
            break
    return j


def static_kind(type_toks, is_mut, in_thread_local):
    if in_thread_local:
        return "thread-local-static"
    if is_mut:
        return "static-mut"
    for name in ["LazyLock", "OnceLock", "OnceCell", "Once", "Mutex", "RwLock", "RefCell", "UnsafeCell", "Cell"]:
        if name in type_toks:
            return "static-" + name
    if any(t.startswith("Atomic") for t in type_toks):
        return "static-Atomic"
    return "static-other"


def scan_file(rel, text):
    toks = lex(text, rel)
    local_types = set()
    for k in range(len(toks) - 1):
        if toks[k] in ("struct", "enum", "type", "union", "trait") and toks[k + 1] in STATE_NAMES:
            local_types.add(toks[k + 1])
    entries = [(rel, nm, "type-named-" + nm, "mod") for nm in sorted(local_types)]
    braces = []          # one label per open brace: fn name or None
    pending_fn = None
    paren = 0
    thread_local_depth = None
    i = 0

    def scope():
        for lab in reversed(braces):
            if lab and lab != "!thread_local":
                return lab
        return "mod"

    while i < len(toks):
        t = toks[i]
        nxt = toks[i + 1] if i + 1 < len(toks) else ""
        if t == "#":
            j = attribute_end(toks, i)
            attr = toks[i:j]
            if attr == ["#", "[", "cfg", "(", "test", ")", "]"]:
                # skip following attributes, then the item
                while j < len(toks) and toks[j] == "#":
                    j = attribute_end(toks, j)
                i = skip_item(toks, j)
                continue
            if "pyclass" in attr and "frozen" not in attr:
                k = j
                while k < len(toks) and toks[k] not in ("struct", "enum"):
                    k += 1
                name = toks[k + 1] if k + 1 < len(toks) else "?"
                entries.append((rel, name, "pyclass-mutable", scope()))
            i = j
            continue
        if t == "use" and paren == 0 and nxt != "<":   # not the `+ use<'a, T>` capture syntax
            while i < len(toks) and toks[i] != ";":
                i += 1
            i += 1
            continue
        if t == "(" or t == "[":
            paren += 1
        elif t == ")" or t == "]":
            paren -= 1
        elif t == "fn" and re.fullmatch(r"[A-Za-z_][A-Za-z0-9_]*", nxt or ""):
            pending_fn = nxt
        elif t == ";" and paren == 0:
            pending_fn = None
        elif t == "{":
            if i >= 2 and toks[i - 1] == "!" and toks[i - 2] == "thread_local":
                braces.append("!thread_local")
            else:
                braces.append(pending_fn if paren == 0 else None)
                if paren == 0:
                    pending_fn = None
        elif t == "}":
            if not braces:
                raise ScanError(f"{rel}: unbalanced braces")
            braces.pop()
        elif t == "static":
            # static [mut] NAME : TYPE = INIT ;
            j = i + 1
            is_mut = toks[j] == "mut"
            if is_mut:
                j += 1
            name = toks[j]
            if toks[j + 1] != ":":
                raise ScanError(f"{rel}: unexpected shape of static item near `{name}`")
            k = j + 2
            d = 0
            while k < len(toks) and not (toks[k] in ("=", ";") and d == 0):
                d += {"<": 1, ">": -1, "(": 1, ")": -1, "[": 1, "]": -1}.get(toks[k], 0)
                k += 1
            type_toks = toks[j + 2:k]
            entries.append((rel, name, static_kind(type_toks, is_mut, "!thread_local" in braces), scope()))
            # skip the initialiser up to the terminating `;`
            d = 0
            while k < len(toks) and not (toks[k] == ";" and d == 0):
                d += {"{": 1, "}": -1, "(": 1, ")": -1, "[": 1, "]": -1}.get(toks[k], 0)
                k += 1
            i = k + 1
            continue
        elif t == "unsafe":
            # upper case in the output: the Lean tree is scanned for the lower-case word as a forbidden Lean construct
            entries.append((rel, "UNSAFE", "rust-UNSAFE", scope()))
        elif t in STATE_NAMES and t not in local_types:
            entries.append((rel, t, "use-" + t, scope()))
        elif t.startswith("Atomic") and t[6:7].isupper():
            entries.append((rel, t, "use-Atomic", scope()))
        elif t == "log" and toks[i + 1:i + 3] == [":", ":"] and toks[i + 3] in LOG_LEVELS and toks[i + 4] == "!":
            entries.append((rel, f"log::{toks[i + 3]}!", "log-call", scope()))
        elif t == "pyo3_log" and toks[i + 1:i + 4] == [":", ":", "init"]:
            entries.append((rel, "pyo3_log::init", "logger-init", scope()))
        elif t == "now" and toks[i - 2:i] == [":", ":"] and nxt == "(":
            entries.append((rel, f"{toks[i - 3]}::now", "clock", scope()))
        elif t == "env" and toks[i + 1:i + 3] == [":", ":"] and re.match(r"(var|args)", toks[i + 3]):
            entries.append((rel, f"env::{toks[i + 3]}", "env", scope()))
        elif t in HASH_NAMES:
            entries.append((rel, t, "hash-container", scope()))
        elif t in AMBIENT_NAMES:
            entries.append((rel, t, "ambient-input", scope()))
        elif t in ARC_IDENTITY:
            entries.append((rel, t, "arc-identity", scope()))
        elif t == "get_mut" and toks[i - 3:i] == ["Arc", ":", ":"]:
            entries.append((rel, "Arc::get_mut", "arc-identity", scope()))
        i += 1
    if braces:
        raise ScanError(f"{rel}: unbalanced braces at end of file")
    return entries


def source_files(repo):
    out = []
    for cd in CRATE_DIRS:
        top = os.path.join(repo, cd)
        if not os.path.isdir(top):
            raise ScanError(f"missing crate directory {top}")
        for dirpath, dirnames, filenames in os.walk(top):
            dirnames[:] = sorted(d for d in dirnames if d not in SKIP_DIRS)
            for fn in sorted(filenames):
                if fn.endswith(".rs"):
                    rel = os.path.relpath(os.path.join(dirpath, fn), repo)
                    if rel not in SKIP_FILES:
                        out.append(rel)
    return out


def lean_str(s):
    if '"' in s or "\\" in s or "\n" in s:
        raise ScanError(f"cannot emit {s!r}")
    return '"' + s + '"'


def main():
    repo = sys.argv[1] if len(sys.argv) > 1 else DEFAULT_REPO
    out_path = sys.argv[2] if len(sys.argv) > 2 else DEFAULT_OUT
    try:
        files = source_files(repo)
        entries = []
        for rel in files:
            with open(os.path.join(repo, rel), encoding="utf-8") as f:
                entries.extend(scan_file(rel, f.read()))
    except (ScanError, OSError, IndexError) as e:
        sys.stderr.write(f"shared_state_inventory: {e}\n")
        return 1
    lines = [
        "/- GENERATED by translators/shared_state_inventory.py from the Rust sources — do not edit.",
        "   One entry per item that could carry state or ambient input across evaluations:",
        "   (file, identifier, kind, scope = innermost enclosing fn or `mod`). -/",
        "namespace OH.Generated.SharedState",
        "",
        f"def scannedFileCount : Nat := {len(files)}",
        "",
        "def inventory : List (String × String × String × String) := [",
    ]
    lines += ["  (" + ", ".join(lean_str(x) for x in e) + ")" + ("," if k + 1 < len(entries) else "") for k, e in enumerate(entries)]
    lines += ["]", "", "end OH.Generated.SharedState", ""]
    content = "\n".join(lines)
    old = None
    if os.path.exists(out_path):
        with open(out_path, encoding="utf-8") as f:
            old = f.read()
    if old != content:
        os.makedirs(os.path.dirname(out_path), exist_ok=True)
        with open(out_path, "w", encoding="utf-8") as f:
            f.write(content)
    sys.stderr.write(f"shared_state_inventory: {len(files)} files, {len(entries)} entries -> {out_path}\n")
    return 0


if __name__ == "__main__":
    sys.exit(main())
